#!/usr/bin/python3
"""Regenerates the generated part of DESIGN.md (between the AUTOGEN markers) from known_findings.json and seeded/*/meta.json."""
import json, os, glob, re
V = "/verif"
kf = json.load(open(os.path.join(V, "known_findings.json")))["findings"]
out = []
out.append("### 9.3 Defects repaired (`fix:` commits in /repo) and open findings\n")
out.append("| property | commit | what failed | key the checks produced |\n|---|---|---|---|")
for f in kf:
    if f["status"] == "fixed":
        what = f["summary"].split(" ", 3)[3] if f["summary"].startswith("fixed:") else f["summary"]
        out.append("| %s | `%s` | %s | `%s` |" % (f["property"], f["commit"], what.replace("|", "/"), f["key"].replace("|", "/")))
out.append("\nOpen findings (printed as `KNOWN-FINDING:` by the check, never suppressing a different key):\n")
for f in kf:
    if f["status"] == "open":
        out.append("* **%s** `%s` — %s  \n  witness: %s" % (f["property"], f["key"], f["summary"], f.get("witness", "")))
out.append("\n### 9.4 Seeded changes (sub-agents, given only the property text) and which checks catch them\n")
out.append("| id | breaks | what it needs to manifest (agent's words, first line) | confirmed (suite 89/89, demo fails with / passes without) | caught by (quick tier) |\n|---|---|---|---|---|")
for d in sorted(glob.glob(os.path.join(V, "seeded", "*"))):
    try:
        m = json.load(open(os.path.join(d, "meta.json")))
    except Exception:
        continue
    needs = " ".join(m.get("needs", "").split())
    needs = needs[:230] + ("..." if len(needs) > 230 else "")
    c = m.get("confirmed", {})
    conf = "yes" if c.get("applies") and "PASS: 89" in c.get("make_check_with_patch", "") and c.get("demo_with_patch_rc") not in (0, None) and c.get("demo_without_patch_rc") == 0 else "partly: %r" % c
    out.append("| %s | %s | %s | %s | %s |" % (m["seeded_id"], m["property"], needs.replace("|", "/"), conf, ", ".join(m.get("caught_by") or []) or "**missed**"))
text = "\n".join(out) + "\n"
p = os.path.join(V, "DESIGN.md")
s = open(p).read()
a, b = "<!-- AUTOGEN-BEGIN -->", "<!-- AUTOGEN-END -->"
if a in s:
    s = s[:s.index(a) + len(a)] + "\n" + text + s[s.index(b):]
    open(p, "w").write(s)
    print("DESIGN.md tables regenerated")
else:
    print(text)
