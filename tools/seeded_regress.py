#!/usr/bin/python3
"""Re-run every stored seeded change against the current tree: apply it in a scratch worktree of /repo (SEEDED_REPO, default
/tmp/wt/clean), run the quick tier of its property with VERIF_REPO pointing there, and record whether the check still reports a violation.
Writes seeded/REGRESSION.json."""
import json, os, subprocess, sys, time, glob
VERIF = "/verif"
T = os.environ.get("SEEDED_REPO", "/tmp/wt/clean")
only = sys.argv[1:]
res = {}
out = os.path.join(VERIF, "seeded", "REGRESSION.json")
if os.path.exists(out):
    # resume: what was caught stays; with properties / ids named on the command line everything else is kept as recorded too
    res = {k: v for k, v in json.load(open(out)).items()
           if v.get("status") == "caught" or (only and k not in only and k.split("-")[0] not in only)}
for d in sorted(glob.glob(os.path.join(VERIF, "seeded", "C*"))):
    sid = os.path.basename(d)
    prop = sid.split("-")[0]
    if only and sid not in only and prop not in only:
        continue
    if sid in res:
        continue
    try:
        checks = json.load(open(os.path.join(d, "meta.json"))).get("caught_by") or [prop]
    except Exception:
        checks = [prop]
    subprocess.run("git -C %s checkout -q -- . && git -C %s checkout -q --detach main" % (T, T), shell=True)
    if subprocess.run(["git", "-C", T, "apply", os.path.join(d, "patch.diff")], capture_output=True).returncode != 0:
        res[sid] = {"status": "patch no longer applies (the code it touches was changed by a later fix)"}
        continue
    t0 = time.time()
    try:
        for chk in checks:
            r = subprocess.run("VERIF_REPO=%s ./check %s --tier quick" % (T, chk), shell=True, cwd=VERIF, capture_output=True, timeout=3600)
            keys = [l.split("key=")[1].split()[0] for l in r.stdout.decode(errors="replace").splitlines() if l.startswith("VIOLATION") and "key=" in l]
            res[sid] = {"status": "caught" if r.returncode == 1 else "NOT caught (exit %d)" % r.returncode, "by": chk, "keys": keys[:4], "wall_s": round(time.time() - t0)}
            if r.returncode == 1:
                break
    except subprocess.TimeoutExpired:
        res[sid] = {"status": "timeout"}
    subprocess.run("git -C %s checkout -q -- ." % T, shell=True)
    print(sid, res[sid]["status"], flush=True)
    json.dump(res, open(out, "w"), indent=1, sort_keys=True)
json.dump(res, open(out, "w"), indent=1, sort_keys=True)
print("caught", sum(1 for v in res.values() if v["status"] == "caught"), "of", len(res))
