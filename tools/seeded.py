#!/usr/bin/python3
"""Confirm a sub-agent's seeded change in a scratch worktree and run our checks against it.
usage: tools/seeded.py <out-dir> <i> <seeded-id> <property> [checks...]
  1. scratch worktree of /repo HEAD: apply patch, build, make check must pass 89/89, demo must fail;
     revert, rebuild, demo must pass.
  2. apply the patch to /repo, run ./check <P> --tier quick for the given checks, undo it.
  3. store patch, demo, meta.json under /verif/seeded/<seeded-id>/ ."""
import json, os, shutil, subprocess, sys, glob, time

out, i, sid, prop = sys.argv[1:5]
checks = sys.argv[5:] or [prop]
VERIF = "/verif"
WT = "/tmp/wt/confirm-%s" % sid


def sh(cmd, cwd=None, timeout=1800):
    r = subprocess.run(cmd, shell=True, cwd=cwd, stdout=subprocess.PIPE, stderr=subprocess.STDOUT, timeout=timeout)
    return r.returncode, r.stdout.decode(errors="replace")


patch = os.path.join(out, "patch%s.diff" % i)
demo = os.path.join(out, "demo%s.sh" % i)
meta = {"seeded_id": sid, "property": prop, "source": "sub-agent given only the property text and a scratch worktree"}
try:
    meta["needs"] = open(os.path.join(out, "meta%s.txt" % i)).read()
except OSError:
    meta["needs"] = ""
confirm = {}
if os.environ.get("SKIP_CONFIRM") != "1":
    sh("git -C /repo worktree remove --force %s" % WT)
    rc, o = sh("git -C /repo worktree add -q %s HEAD" % WT)
    assert rc == 0, o
    try:
        rc, o = sh("git apply %s" % patch, cwd=WT)
        confirm["applies"] = rc == 0
        if rc != 0:
            print("patch does not apply:", o)
        else:
            rc, o = sh("./autogen.sh >/dev/null 2>&1 && ./configure CFLAGS=-Wno-error >/dev/null 2>&1 && make -j16 >/dev/null 2>&1 && make -j16 check 2>&1 | grep -E '^# (PASS|FAIL|TOTAL)'", cwd=WT)
            confirm["make_check_with_patch"] = " ".join(o.split())
            rc1, o1 = sh("bash %s %s" % (demo, WT), cwd=out, timeout=1200)
            confirm["demo_with_patch_rc"] = rc1
            sh("git checkout -- . && make -j16 >/dev/null 2>&1", cwd=WT)
            rc2, o2 = sh("bash %s %s" % (demo, WT), cwd=out, timeout=1200)
            confirm["demo_without_patch_rc"] = rc2
    finally:
        sh("git -C /repo worktree remove --force %s" % WT)
    print("confirm:", confirm)
if not confirm:
    try:
        confirm = json.load(open(os.path.join(VERIF, "seeded", sid, "meta.json")))["confirmed"]
    except Exception:
        pass
meta["confirmed"] = confirm
# run our checks (SEEDED_REPO: a scratch `git worktree` of /repo at HEAD instead of /repo itself, so that /repo stays usable meanwhile)
TARGET = os.environ.get("SEEDED_REPO", "/repo")
if TARGET != "/repo":
    sh("git -C %s checkout -q -- . && git -C %s checkout -q --detach main" % (TARGET, TARGET))
rc, o = sh("git -C %s status --porcelain" % TARGET)
assert o.strip() == "", "repo not clean: " + o
rc, o = sh("git -C %s apply %s" % (TARGET, patch))
results = {}
if rc != 0:
    print("does not apply to /repo:", o)
else:
    try:
        for c in checks:
            t0 = time.time()
            rc, o = sh("VERIF_REPO=%s ./check %s --tier quick" % (TARGET, c), cwd=VERIF, timeout=3600)
            viol = [l for l in o.splitlines() if l.startswith("VIOLATION")]
            results[c] = {"exit": rc, "violations": [v[:300] for v in viol[:6]], "wall_s": round(time.time() - t0, 1)}
            print(c, "exit", rc, "violations", len(viol), [v.split("key=")[1].split()[0] for v in viol[:5] if "key=" in v])
    finally:
        sh("git -C %s checkout -- ." % TARGET)
meta["our_checks_quick"] = results
meta["caught_by"] = [c for c, r in results.items() if r["exit"] == 1]
d = os.path.join(VERIF, "seeded", sid)
os.makedirs(d, exist_ok=True)
shutil.copy(patch, os.path.join(d, "patch.diff"))
for f in glob.glob(os.path.join(out, "demo%s*" % i)):
    shutil.copy(f, d)
json.dump(meta, open(os.path.join(d, "meta.json"), "w"), indent=1)
print("stored", d, "caught_by", meta["caught_by"])
