/* C18: exhaustive + random comparison of canonicalize_name / is_filename_sane with an
 * independent specification.  Built against the asan variant.
 * usage: canon_enum enum <maxlen> <shard> <nshards>
 *        canon_enum rand <count> <seed>
 * prints: "STAT strings=<n> fail=<n> ok=<n> changed=<n>" and "VIOL <what> <hex>" lines. */
#include <stdio.h>
#include <stdlib.h>
#include <string.h>
#include <stdint.h>
#include <stdbool.h>

int canonicalize_name(char *filename);
bool is_filename_sane(const char *name, bool check_os_specific);

static const unsigned char ALPHA[] = { '/', '.', 'a', 'b', 0xC3 };
#define NALPHA 5

static unsigned long n_strings, n_fail, n_ok, n_changed, n_viol;

/* specification: split on '/', drop empty and "." components, fail iff a component is "..", join */
static int spec(const char *in, size_t len, char *out)
{
	size_t i = 0, o = 0;
	int first = 1;
	/* failure check first: any component equal ".." */
	while (i <= len) {
		size_t s = i;
		while (i < len && in[i] != '/')
			++i;
		if (i - s == 2 && in[s] == '.' && in[s + 1] == '.')
			return -1;
		++i;
	}
	i = 0;
	while (i <= len) {
		size_t s = i;
		while (i < len && in[i] != '/')
			++i;
		if (i - s > 0 && !(i - s == 1 && in[s] == '.')) {
			if (!first)
				out[o++] = '/';
			memcpy(out + o, in + s, i - s);
			o += i - s;
			first = 0;
		}
		++i;
	}
	out[o] = '\0';
	return 0;
}

static void hex(const char *s, size_t n)
{
	for (size_t i = 0; i < n; ++i)
		printf("%02x", (unsigned char)s[i]);
}

static void viol(const char *what, const char *in, size_t len)
{
	if (n_viol++ < 20) {
		printf("VIOL %s ", what);
		hex(in, len);
		printf("\n");
	}
}

static void check_one(const char *in, size_t len, char *buf /* exactly len+1 bytes */, char *exp, char *buf2)
{
	int r, e;
	bool sane, sane_spec;

	n_strings++;
	memcpy(buf, in, len);
	buf[len] = '\0';
	r = canonicalize_name(buf);
	e = spec(in, len, exp);
	if (e != 0) {
		n_fail++;
		if (r == 0)
			viol("accepted-dotdot", in, len);
	} else {
		n_ok++;
		if (r != 0) {
			viol("refused-valid", in, len);
		} else {
			size_t ol = strlen(buf);
			if (ol > len)
				viol("grew", in, len);
			if (strcmp(buf, exp) != 0)
				viol("result-differs", in, len);
			if (ol != len || memcmp(buf, in, len) != 0)
				n_changed++;
			/* idempotent (buf2 is exactly ol+1 bytes from the caller's pool: use malloc for exactness) */
			{
				char *t = malloc(ol + 1);
				memcpy(t, buf, ol + 1);
				if (canonicalize_name(t) != 0 || strcmp(t, buf) != 0)
					viol("not-idempotent", in, len);
				free(t);
			}
		}
	}
	(void)buf2;
	/* file name sanity (strings without NUL only: all of ours) */
	memcpy(buf, in, len);
	buf[len] = '\0';
	sane = is_filename_sane(buf, false);
	sane_spec = !(len == 1 && in[0] == '.') && !(len == 2 && in[0] == '.' && in[1] == '.') && memchr(in, '/', len) == NULL;
	if (sane != sane_spec)
		viol(sane ? "sane-accepts-bad" : "sane-refuses-good", in, len);
}

static uint64_t rng_state;
static uint64_t rnd(void)
{
	uint64_t z = (rng_state += 0x9E3779B97F4A7C15ULL);
	z = (z ^ (z >> 30)) * 0xBF58476D1CE4E5B9ULL;
	z = (z ^ (z >> 27)) * 0x94D049BB133111EBULL;
	return z ^ (z >> 31);
}

int main(int argc, char **argv)
{
	if (argc >= 5 && !strcmp(argv[1], "enum")) {
		int maxlen = atoi(argv[2]);
		unsigned long shard = strtoul(argv[3], NULL, 0), nshards = strtoul(argv[4], NULL, 0);
		char in[32], exp[64];
		for (int len = 0; len <= maxlen; ++len) {
			unsigned long total = 1, idx;
			char *buf = malloc(len + 1);
			for (int i = 0; i < len; ++i)
				total *= NALPHA;
			for (idx = shard; idx < total; idx += nshards) {
				unsigned long v = idx;
				for (int i = 0; i < len; ++i) {
					in[i] = ALPHA[v % NALPHA];
					v /= NALPHA;
				}
				check_one(in, len, buf, exp, NULL);
			}
			free(buf);
		}
	} else if (argc >= 4 && !strcmp(argv[1], "rand")) {
		unsigned long count = strtoul(argv[2], NULL, 0);
		rng_state = strtoull(argv[3], NULL, 0);
		for (unsigned long c = 0; c < count; ++c) {
			size_t len = rnd() % ((c % 16 == 0) ? 4097 : 64);
			char *in = malloc(len + 1), *buf = malloc(len + 1), *exp = malloc(len + 2);
			int mode = rnd() % 3;
			for (size_t i = 0; i < len; ++i) {
				uint64_t r = rnd();
				unsigned char ch;
				if (mode == 0)
					ch = 1 + r % 255;
				else if (mode == 1)
					ch = (r % 4 == 0) ? '/' : (r % 4 == 1) ? '.' : (1 + (r >> 8) % 255);
				else
					ch = ALPHA[r % NALPHA];
				in[i] = ch;
			}
			check_one(in, len, buf, exp, NULL);
			free(in); free(buf); free(exp);
		}
	} else {
		fprintf(stderr, "usage\n");
		return 2;
	}
	printf("STAT strings=%lu fail=%lu ok=%lu changed=%lu viol=%lu\n", n_strings, n_fail, n_ok, n_changed, n_viol);
	return n_viol ? 1 : 0;
}
