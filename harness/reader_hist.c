/* Query interpreter over the libsquashfs reader API (C05 walk, C10 histories).
 * usage: reader_hist <image> shared|fresh < script
 * Every script line is one self-contained query; the answer is printed as "<status> <hash>".
 *   I <ref>                     inode by reference
 *   L <ref>                     list directory of the inode at ref
 *   P <path>                    resolve path (sqfs_dir_reader_resolve_path when available, else hierarchy)
 *   R <ref> <offset> <size>     positional read
 *   B <ref> <index>             one block
 *   F <ref>                     fragment
 *   S <ref>                     whole file through the stream interface
 *   X <index>                   xattr set
 *   D <index>                   id table lookup
 *   M <which> <block> <off> <n> raw metadata: seek + read n bytes (which 0 = inode table, 1 = directory table)
 *   W                           full walk the way the tools do it (tree, stat, xattrs, all data APIs, recursive iterator)
 */
#include <stdio.h>
#include <stdlib.h>
#include <string.h>
#include <stdint.h>
#include <inttypes.h>
#include <sys/stat.h>
#include <sys/wait.h>
#include <unistd.h>
#include <signal.h>
#include <errno.h>
#include <time.h>

#include "sqfs/super.h"
#include "sqfs/compressor.h"
#include "sqfs/io.h"
#include "sqfs/error.h"
#include "sqfs/inode.h"
#include "sqfs/dir.h"
#include "sqfs/dir_reader.h"
#include "sqfs/dir_entry.h"
#include "sqfs/data_reader.h"
#include "sqfs/xattr_reader.h"
#include "sqfs/xattr.h"
#include "sqfs/id_table.h"
#include "sqfs/meta_reader.h"
#include "sqfs/block.h"
#include "common.h"

typedef struct {
	sqfs_file_t *file;
	sqfs_super_t super;
	sqfs_compressor_t *cmp;
	sqfs_id_table_t *idtbl;
	sqfs_dir_reader_t *dr;
	sqfs_data_reader_t *data;
	sqfs_xattr_reader_t *xr;
	sqfs_meta_reader_t *mi, *md;
	int status;
} ctx_t;

static const char *image;

static uint64_t H(uint64_t h, const void *p, size_t n)
{
	const unsigned char *b = p;
	while (n--) { h ^= *b++; h *= 1099511628211ULL; }
	return h;
}
#define H0 1469598103934665603ULL
#define HV(h, v) H((h), &(v), sizeof(v))

static void ctx_close(ctx_t *c)
{
	sqfs_drop(c->mi); sqfs_drop(c->md); sqfs_drop(c->xr); sqfs_drop(c->data); sqfs_drop(c->dr);
	sqfs_drop(c->idtbl); sqfs_drop(c->cmp); sqfs_drop(c->file);
	memset(c, 0, sizeof(*c));
}

static int ctx_open(ctx_t *c)
{
	sqfs_compressor_config_t cfg;
	int ret;

	memset(c, 0, sizeof(*c));
	ret = sqfs_file_open(&c->file, image, SQFS_FILE_OPEN_READ_ONLY);
	if (ret) goto fail;
	ret = sqfs_super_read(&c->super, c->file);
	if (ret) goto fail;
	sqfs_compressor_config_init(&cfg, c->super.compression_id, c->super.block_size, SQFS_COMP_FLAG_UNCOMPRESS);
	ret = sqfs_compressor_create(&cfg, &c->cmp);
	if (ret) goto fail;
	if (c->super.flags & SQFS_FLAG_COMPRESSOR_OPTIONS) {
		ret = c->cmp->read_options(c->cmp, c->file);
		if (ret) goto fail;
	}
	if (!(c->super.flags & SQFS_FLAG_NO_XATTRS)) {
		c->xr = sqfs_xattr_reader_create(0);
		if (!c->xr) { ret = SQFS_ERROR_ALLOC; goto fail; }
		ret = sqfs_xattr_reader_load(c->xr, &c->super, c->file, c->cmp);
		if (ret) goto fail;
	}
	c->idtbl = sqfs_id_table_create(0);
	if (!c->idtbl) { ret = SQFS_ERROR_ALLOC; goto fail; }
	ret = sqfs_id_table_read(c->idtbl, c->file, &c->super, c->cmp);
	if (ret) goto fail;
	c->dr = sqfs_dir_reader_create(&c->super, c->cmp, c->file, 0);
	if (!c->dr) { ret = SQFS_ERROR_ALLOC; goto fail; }
	c->data = sqfs_data_reader_create(c->file, c->super.block_size, c->cmp, 0);
	if (!c->data) { ret = SQFS_ERROR_ALLOC; goto fail; }
	ret = sqfs_data_reader_load_fragment_table(c->data, &c->super);
	if (ret) goto fail;
	c->mi = sqfs_meta_reader_create(c->file, c->cmp, c->super.inode_table_start, c->super.directory_table_start);
	c->md = sqfs_meta_reader_create(c->file, c->cmp, c->super.directory_table_start, c->super.bytes_used);
	if (!c->mi || !c->md) { ret = SQFS_ERROR_ALLOC; goto fail; }
	return 0;
fail:
	ctx_close(c);
	c->status = ret;
	return ret;
}

static uint64_t hash_inode(const sqfs_inode_generic_t *ino)
{
	uint64_t h = H0;
	sqfs_u64 v64;
	sqfs_u32 a, b;
	h = HV(h, ino->base.type); h = HV(h, ino->base.mode); h = HV(h, ino->base.uid_idx); h = HV(h, ino->base.gid_idx);
	h = HV(h, ino->base.mod_time); h = HV(h, ino->base.inode_number);
	h = HV(h, ino->payload_bytes_used);
	h = H(h, ino->extra, ino->payload_bytes_used);
	switch (ino->base.type) {
	case SQFS_INODE_DIR: h = H(h, &ino->data.dir, sizeof(ino->data.dir)); break;
	case SQFS_INODE_EXT_DIR: h = H(h, &ino->data.dir_ext, sizeof(ino->data.dir_ext)); break;
	case SQFS_INODE_FILE: case SQFS_INODE_EXT_FILE:
		sqfs_inode_get_file_size(ino, &v64); h = HV(h, v64);
		sqfs_inode_get_file_block_start(ino, &v64); h = HV(h, v64);
		sqfs_inode_get_frag_location(ino, &a, &b); h = HV(h, a); h = HV(h, b);
		break;
	case SQFS_INODE_SLINK: case SQFS_INODE_EXT_SLINK: h = HV(h, ino->data.slink.nlink); h = HV(h, ino->data.slink.target_size); break;
	case SQFS_INODE_BDEV: case SQFS_INODE_CDEV: h = HV(h, ino->data.dev.nlink); h = HV(h, ino->data.dev.devno); break;
	case SQFS_INODE_EXT_BDEV: case SQFS_INODE_EXT_CDEV: h = HV(h, ino->data.dev_ext.nlink); h = HV(h, ino->data.dev_ext.devno); break;
	default: break;
	}
	sqfs_inode_get_xattr_index(ino, &a); h = HV(h, a);
	return h;
}

static int q_list(ctx_t *c, sqfs_u64 ref, uint64_t *out)
{
	sqfs_inode_generic_t *ino = NULL;
	sqfs_dir_reader_state_t st;
	sqfs_dir_node_t *ent;
	uint64_t h = H0;
	int ret, n = 0;

	ret = sqfs_dir_reader_get_inode(c->dr, ref, &ino);
	if (ret) return ret;
	ret = sqfs_dir_reader_open_dir(c->dr, ino, &st, SQFS_DIR_OPEN_NO_DOT_ENTRIES);
	if (ret) { sqfs_free(ino); return ret; }
	for (;;) {
		ret = sqfs_dir_reader_read(c->dr, &st, &ent);
		if (ret != 0) break;
		h = HV(h, ent->type); h = HV(h, ent->size); h = H(h, ent->name, ent->size + 1); h = HV(h, st.ent_ref);
		sqfs_free(ent);
		if (++n > 1000000) { ret = SQFS_ERROR_OVERFLOW; break; }
	}
	sqfs_free(ino);
	*out = h;
	return ret > 0 ? 0 : ret;
}

static unsigned long iter_reopen_differs;
static unsigned long stream_after_error;
static int q_stream(ctx_t *c, const sqfs_inode_generic_t *ino, uint64_t *out, sqfs_u64 *total)
{
	sqfs_istream_t *in = NULL;
	uint64_t h = H0;
	int ret;
	*total = 0;
	ret = sqfs_data_reader_create_stream(c->data, ino, "f", &in);
	if (ret) return ret;
	for (;;) {
		const sqfs_u8 *p; size_t n;
		ret = in->get_buffered_data(in, &p, &n, c->super.block_size);
		if (ret < 0) {
			/* a stream that failed must keep failing (or report its end), not hand out data on the next call */
			const sqfs_u8 *p2; size_t n2 = 0;
			if (in->get_buffered_data(in, &p2, &n2, c->super.block_size) == 0 && n2 > 0) {
				printf("STREAM-AFTER-ERROR inode=%u error=%d then %lu bytes\n", ino->base.inode_number, ret, (unsigned long)n2);
				stream_after_error++;
			}
		}
		if (ret != 0) break;
		h = H(h, p, n);
		*total += n;
		in->advance_buffer(in, n);
		if (*total > (1ULL << 32)) { ret = SQFS_ERROR_OVERFLOW; break; }
	}
	sqfs_drop(in);
	*out = h;
	return ret > 0 ? 0 : ret;
}

static int is_file(const sqfs_inode_generic_t *i) { return i->base.type == SQFS_INODE_FILE || i->base.type == SQFS_INODE_EXT_FILE; }
static int is_dir(const sqfs_inode_generic_t *i) { return i->base.type == SQFS_INODE_DIR || i->base.type == SQFS_INODE_EXT_DIR; }

static unsigned long walk_nodes, walk_bytes;

static int file_all_apis(ctx_t *c, const sqfs_inode_generic_t *ino, int *agree)
{
	uint64_t hs = 0, hr = H0, hb = H0;
	sqfs_u64 total = 0, size = 0, off = 0, btotal = 0;
	size_t i, nblk, sz;
	int bfail = 0;
	sqfs_u8 *buf, *blk;
	int ret, rs;

	*agree = 1;
	sqfs_inode_get_file_size(ino, &size);
	if (size > (64u << 20))
		size = 64u << 20;
	rs = q_stream(c, ino, &hs, &total);
	/* positional reads in odd sized pieces */
	buf = malloc(70001);
	ret = 0;
	while (off < size) {
		sqfs_s32 n = sqfs_data_reader_read(c->data, ino, off, buf, (off % 3) ? 70001 : 4097);
		if (n < 0) { ret = n; break; }
		if (n == 0) break;
		hr = H(hr, buf, n);
		off += n;
	}
	if (ret < 0) {
		/* a refused read says nothing about its neighbours: positions behind the refused one are asked as well
		   (bounds checks that hold for offset 0 can wrap for others); the answers are not part of any comparison */
		static const sqfs_u64 step[] = { 1, 2, 3, 4, 500, 4095, 4096, 4097, 65536 };
		size_t k;
		for (k = 0; k < sizeof(step) / sizeof(step[0]); ++k) {
			if (off + step[k] < size)
				(void)sqfs_data_reader_read(c->data, ino, off + step[k], buf, (k % 2) ? 1 : 4097);
		}
		if (size > 0)
			(void)sqfs_data_reader_read(c->data, ino, size - 1, buf, 1);
	}
	free(buf);
	/* block by block + fragment */
	nblk = sqfs_inode_get_file_block_count(ino);
	for (i = 0; i < nblk && i < 20000; ++i) {
		if (sqfs_data_reader_get_block(c->data, ino, i, &sz, &blk) != 0) { bfail = 1; break; }
		hb = H(hb, blk, sz);
		btotal += sz;
		free(blk);
	}
	if (nblk > 20000)
		bfail = 1;
	if (sqfs_data_reader_get_fragment(c->data, ino, &sz, &blk) == 0 && blk != NULL) {
		hb = H(hb, blk, sz);
		btotal += sz;
		free(blk);
	}
	walk_bytes += total;
	if (rs == 0 && ret == 0 && total == off && hs != hr)
		*agree = 0;
	/* the per-block API returns the same bytes (holes included) as the positional read */
	if (ret == 0 && !bfail && btotal == off && hb != hr)
		*agree = 0;
	return rs ? rs : ret;
}

static void walk_tree(ctx_t *c, const sqfs_tree_node_t *n, int depth)
{
	const sqfs_tree_node_t *it;
	sqfs_xattr_t *xl;
	sqfs_u32 idx;
	char *path = NULL;
	int agree;

	walk_nodes++;
	if (sqfs_tree_node_get_path(n, &path) == 0)
		sqfs_free(path);
	sqfs_inode_get_xattr_index(n->inode, &idx);
	if (c->xr && idx != 0xFFFFFFFF) {
		if (sqfs_xattr_reader_read_all(c->xr, idx, &xl) == 0)
			sqfs_xattr_list_free(xl);
	}
	if (is_file(n->inode)) {
		file_all_apis(c, n->inode, &agree);
		if (!agree)
			printf("DISAGREE inode=%u stream, positional read and per-block read differ\n", n->inode->base.inode_number);
	}
	for (it = n->children; it != NULL; it = it->next)
		if (depth < 4000)
			walk_tree(c, it, depth + 1);
}

static int q_walk(ctx_t *c, uint64_t *out)
{
	sqfs_tree_node_t *root = NULL;
	sqfs_dir_iterator_t *base = NULL, *rec = NULL, *hl = NULL;
	sqfs_inode_generic_t *rino = NULL;
	int ret, ret2;
	unsigned long n = 0;

	ret = sqfs_dir_reader_get_full_hierarchy(c->dr, c->idtbl, NULL, 0, &root);
	if (ret == 0) {
		/* path resolution for the visible part of the first names, from exactly sized heap strings */
		const sqfs_tree_node_t *ch, *gc;
		unsigned cnt = 0;
		for (ch = root->children; ch != NULL && cnt < 40; ch = ch->next, ++cnt) {
			size_t l1 = strlen((const char *)ch->name);
			char *pth = malloc(l1 + 2);
			sqfs_tree_node_t *sub = NULL;
			sqfs_u64 ref;
			pth[0] = '/'; memcpy(pth + 1, ch->name, l1 + 1);
			(void)sqfs_dir_reader_resolve_path(c->dr, pth, NULL, &ref);
			(void)sqfs_dir_reader_resolve_path(c->dr, pth + 1, NULL, &ref);
			if (sqfs_dir_reader_get_full_hierarchy(c->dr, c->idtbl, pth, SQFS_TREE_NO_RECURSE, &sub) == 0)
				sqfs_dir_tree_destroy(sub);
			free(pth);
			gc = ch->children;
			if (gc != NULL) {
				size_t l2 = strlen((const char *)gc->name);
				pth = malloc(l1 + l2 + 3);
				pth[0] = '/'; memcpy(pth + 1, ch->name, l1); pth[1 + l1] = '/'; memcpy(pth + 2 + l1, gc->name, l2 + 1);
				(void)sqfs_dir_reader_resolve_path(c->dr, pth, NULL, &ref);
				if (sqfs_dir_reader_get_full_hierarchy(c->dr, c->idtbl, pth, SQFS_TREE_NO_RECURSE, &sub) == 0)
					sqfs_dir_tree_destroy(sub);
				free(pth);
			}
		}
		walk_tree(c, root, 0);
		sqfs_dir_tree_destroy(root);
	}
	/* the way sqfs2tar does it */
	ret2 = sqfs_dir_reader_get_root_inode(c->dr, &rino);
	if (ret2 == 0) {
		ret2 = sqfs_dir_iterator_create(c->dr, c->idtbl, c->data, c->xr, rino, &base);
		sqfs_free(rino);
	}
	if (ret2 == 0)
		ret2 = sqfs_dir_iterator_create_recursive(&rec, base);
	if (ret2 == 0)
		ret2 = sqfs_hard_link_filter_create(&hl, rec);
	if (ret2 == 0) {
		for (;;) {
			sqfs_dir_entry_t *ent = NULL;
			ret2 = hl->next(hl, &ent);
			if (ret2 != 0) break;
			if (S_ISLNK(ent->mode) || (ent->flags & SQFS_DIR_ENTRY_FLAG_HARD_LINK)) {
				char *t = NULL;
				if (hl->read_link(hl, &t) == 0) sqfs_free(t);
			} else {
				sqfs_xattr_t *xl = NULL;
				if (hl->read_xattr(hl, &xl) == 0) sqfs_xattr_list_free(xl);
				if (S_ISREG(ent->mode)) {
					sqfs_istream_t *in = NULL;
					if (hl->open_file_ro(hl, &in) == 0) {
						const sqfs_u8 *p; size_t sz; sqfs_u64 tot = 0;
						while (in->get_buffered_data(in, &p, &sz, 65536) == 0) {
							in->advance_buffer(in, sz);
							tot += sz;
							if (tot > (1ULL << 31)) break;
						}
						sqfs_drop(in);
					}
				}
			}
			sqfs_free(ent);
			if (++n > 20000000) break;
		}
	}
	sqfs_drop(hl); sqfs_drop(rec); sqfs_drop(base);
	*out = (uint64_t)walk_nodes;
	return ret;
}

static int run_query(ctx_t *c, char *line, uint64_t *out)
{
	sqfs_inode_generic_t *ino = NULL;
	unsigned long long a = 0, b = 0, d = 0, e = 0;
	uint64_t h = H0;
	int ret = 0;

	*out = 0;
	switch (line[0]) {
	case 'I':
		sscanf(line + 1, "%llu", &a);
		ret = sqfs_dir_reader_get_inode(c->dr, a, &ino);
		if (ret == 0) { *out = hash_inode(ino); sqfs_free(ino); }
		return ret;
	case 'L':
		sscanf(line + 1, "%llu", &a);
		return q_list(c, a, out);
	case 'P': {
		char *p = line + 1;
		sqfs_tree_node_t *n = NULL;
		while (*p == ' ') ++p;
		ret = sqfs_dir_reader_get_full_hierarchy(c->dr, c->idtbl, p, SQFS_TREE_NO_RECURSE, &n);
		if (ret == 0) { *out = hash_inode(n->inode); sqfs_dir_tree_destroy(n); }
		return ret;
	}
	case 'R': case 'B': case 'F': case 'S':
		sscanf(line + 1, "%llu %llu %llu", &a, &b, &d);
		ret = sqfs_dir_reader_get_inode(c->dr, a, &ino);
		if (ret) return ret;
		if (!is_file(ino)) { sqfs_free(ino); return SQFS_ERROR_NOT_FILE; }
		if (line[0] == 'R') {
			sqfs_u8 *buf;
			sqfs_s32 n;
			if (d > (8u << 20)) d = 8u << 20;
			buf = malloc(d ? d : 1);
			n = sqfs_data_reader_read(c->data, ino, b, buf, d);
			if (n >= 0) { h = H(h, buf, n); h = HV(h, n); *out = h; ret = 0; } else ret = n;
			free(buf);
		} else if (line[0] == 'B') {
			size_t sz; sqfs_u8 *blk = NULL;
			ret = sqfs_data_reader_get_block(c->data, ino, b, &sz, &blk);
			if (ret == 0) { h = H(h, blk, sz); h = HV(h, sz); *out = h; free(blk); }
		} else if (line[0] == 'F') {
			size_t sz; sqfs_u8 *blk = NULL;
			ret = sqfs_data_reader_get_fragment(c->data, ino, &sz, &blk);
			if (ret == 0) { h = H(h, blk, blk ? sz : 0); h = HV(h, sz); *out = h; free(blk); }
		} else {
			sqfs_u64 tot;
			ret = q_stream(c, ino, out, &tot);
		}
		sqfs_free(ino);
		return ret;
	case 'X': {
		sqfs_xattr_t *xl = NULL, *it;
		sscanf(line + 1, "%llu", &a);
		if (!c->xr) return SQFS_ERROR_NO_ENTRY;
		ret = sqfs_xattr_reader_read_all(c->xr, a, &xl);
		if (ret == 0) {
			for (it = xl; it; it = it->next) { h = H(h, it->key, strlen(it->key) + 1); h = H(h, it->value, it->value_len); h = HV(h, it->value_len); }
			sqfs_xattr_list_free(xl);
			*out = h;
		}
		return ret;
	}
	case 'O': {
		/* iterator on directory inode a: every sub directory entry is opened twice through open_subdir();
		 * the second listing must be the first one again */
		sqfs_dir_iterator_t *it = NULL;
		unsigned n = 0;
		sscanf(line + 1, "%llu", &a);
		ret = sqfs_dir_reader_get_inode(c->dr, a, &ino);
		if (ret) return ret;
		ret = sqfs_dir_iterator_create(c->dr, c->idtbl, c->data, c->xr, ino, &it);
		sqfs_free(ino);
		if (ret) return ret;
		for (;;) {
			sqfs_dir_entry_t *ent = NULL;
			int round;
			uint64_t hh[2] = { 0, 0 };
			int rr[2] = { 0, 0 };
			ret = it->next(it, &ent);
			if (ret != 0) break;
			h = H(h, ent->name, strlen(ent->name) + 1);
			if (S_ISDIR(ent->mode) && n < 20) {
				for (round = 0; round < 2; ++round) {
					sqfs_dir_iterator_t *sub = NULL;
					hh[round] = H0;
					rr[round] = it->open_subdir(it, &sub);
					if (rr[round] == 0) {
						sqfs_dir_entry_t *e2 = NULL;
						unsigned k = 0;
						while (sub->next(sub, &e2) == 0 && k++ < 100) { hh[round] = H(hh[round], e2->name, strlen(e2->name) + 1); sqfs_free(e2); }
						sqfs_drop(sub);
					}
				}
				if (rr[0] != rr[1] || hh[0] != hh[1]) {
					printf("ITER-REOPEN entry=%s first=%d second=%d\n", ent->name, rr[0], rr[1]);
					iter_reopen_differs++;
				}
				h = HV(h, rr[0]); h = HV(h, hh[0]);
				++n;
			}
			sqfs_free(ent);
		}
		sqfs_drop(it);
		*out = h;
		return ret < 0 ? ret : 0;
	}
	case 'Y': {
		/* low level walk of xattr set a; before every value another descriptor (b, if >= 0) is looked up in between.
		 * The answer is defined by a alone, in the same format as X. */
		sqfs_xattr_id_t desc, other;
		long long j = -1;
		size_t i;
		sscanf(line + 1, "%llu %lld", &a, &j);
		if (!c->xr) return SQFS_ERROR_NO_ENTRY;
		ret = sqfs_xattr_reader_get_desc(c->xr, a, &desc);
		if (ret) return ret;
		ret = sqfs_xattr_reader_seek_kv(c->xr, &desc);
		if (ret) return ret;
		for (i = 0; i < desc.count && i < 1000; ++i) {
			sqfs_xattr_entry_t *key = NULL;
			sqfs_xattr_value_t *val = NULL;
			ret = sqfs_xattr_reader_read_key(c->xr, &key);
			if (ret) return ret;
			if (j >= 0)
				(void)sqfs_xattr_reader_get_desc(c->xr, (sqfs_u32)j, &other);
			ret = sqfs_xattr_reader_read_value(c->xr, key, &val);
			if (ret) { sqfs_free(key); return ret; }
			h = H(h, key->key, strlen((const char *)key->key) + 1);
			h = H(h, val->value, val->size);
			h = HV(h, val->size);
			sqfs_free(key);
			sqfs_free(val);
		}
		*out = h;
		return 0;
	}
	case 'D': {
		sqfs_u32 id;
		sscanf(line + 1, "%llu", &a);
		ret = sqfs_id_table_index_to_id(c->idtbl, a, &id);
		if (ret == 0) *out = id;
		return ret;
	}
	case 'M': {
		sqfs_meta_reader_t *m;
		sqfs_u8 buf[512];
		sscanf(line + 1, "%llu %llu %llu %llu", &a, &b, &d, &e);
		m = a ? c->md : c->mi;
		if (e > sizeof(buf)) e = sizeof(buf);
		ret = sqfs_meta_reader_seek(m, b, d);
		if (ret) return ret;
		ret = sqfs_meta_reader_read(m, buf, e);
		if (ret == 0) *out = H(h, buf, e);
		return ret;
	}
	case 'W':
		return q_walk(c, out);
	default:
		return -1000;
	}
}

/* batch mode: one forked child per image path read from stdin; the child does the full walk */
static int batch_main(int timeout_s)
{
	char line[8192];

	while (fgets(line, sizeof(line), stdin)) {
		size_t l = strlen(line);
		pid_t pid;
		int st = 0, waited = 0;
		struct timespec ts = { 0, 2000000 };
		time_t t0;

		while (l && (line[l - 1] == '\n' || line[l - 1] == '\r')) line[--l] = 0;
		if (!l) continue;
		fprintf(stderr, "=== %s\n", line);
		fflush(stderr);
		fflush(stdout);
		pid = fork();
		if (pid == 0) {
			ctx_t c;
			uint64_t out;
			image = line;
			if (ctx_open(&c) != 0)
				_exit(10);
			q_walk(&c, &out);
			ctx_close(&c);
			_exit(0);
		}
		if (pid < 0) {
			printf("RES %s forkfail 0\n", line);
			continue;
		}
		t0 = time(NULL);
		for (;;) {
			pid_t r = waitpid(pid, &st, WNOHANG);
			if (r == pid) { waited = 1; break; }
			if (time(NULL) - t0 > timeout_s) break;
			nanosleep(&ts, NULL);
		}
		if (!waited) {
			kill(pid, SIGKILL);
			waitpid(pid, &st, 0);
			printf("RES %s hang 0\n", line);
		} else if (WIFSIGNALED(st)) {
			printf("RES %s signal %d\n", line, WTERMSIG(st));
		} else {
			printf("RES %s exit %d\n", line, WEXITSTATUS(st));
		}
		fflush(stdout);
	}
	return 0;
}

int main(int argc, char **argv)
{
	char line[8192];
	ctx_t shared, fresh;
	int is_shared, ret;

	if (argc >= 2 && !strcmp(argv[1], "batch"))
		return batch_main(argc > 2 ? atoi(argv[2]) : 20);
	if (argc < 3) { fprintf(stderr, "usage\n"); return 2; }
	image = argv[1];
	is_shared = !strcmp(argv[2], "shared");
	memset(&shared, 0, sizeof(shared));
	if (is_shared) {
		if (ctx_open(&shared) != 0) {
			printf("OPENFAIL %d\n", shared.status);
			return 0;
		}
	}
	while (fgets(line, sizeof(line), stdin)) {
		uint64_t out = 0;
		size_t l = strlen(line);
		while (l && (line[l - 1] == '\n' || line[l - 1] == '\r')) line[--l] = 0;
		if (!l) continue;
		if (is_shared) {
			ret = run_query(&shared, line, &out);
		} else {
			if (ctx_open(&fresh) != 0) {
				printf("OPENFAIL %d\n", fresh.status);
				continue;
			}
			ret = run_query(&fresh, line, &out);
			ctx_close(&fresh);
		}
		printf("%d %016" PRIx64 "\n", ret, ret == 0 ? out : 0);
	}
	if (is_shared)
		ctx_close(&shared);
	printf("DONE nodes=%lu bytes=%lu\n", walk_nodes, walk_bytes);
	return 0;
}
