/* C19: copies of library objects are independent, equivalent and safely destroyable.
 * usage: copy_hist <kind> <seed> <order 0|1> <image> <scratch-dir> [copy-of-copy]
 * Three identically constructed objects O1,O2,O3 get the same pre-history; C = sqfs_copy(O1);
 * C then receives Sc while O1 receives an interleaved, different So; C must answer like O2 under Sc and
 * O1 like O3 under So.  Release order 0: O1 then C; 1: C then O1.  LeakSanitizer is on.
 * Output: "RESULT kind=.. ops=.. mismatches=.." ; "VIOL ..." lines. */
#include <stdio.h>
#include <stdlib.h>
#include <string.h>
#include <stdint.h>
#include <unistd.h>

#include "sqfs/super.h"
#include "sqfs/compressor.h"
#include "sqfs/io.h"
#include "sqfs/error.h"
#include "sqfs/inode.h"
#include "sqfs/dir.h"
#include "sqfs/dir_reader.h"
#include "sqfs/data_reader.h"
#include "verif_rt.h"
#include "sqfs/xattr_reader.h"
#include "sqfs/xattr_writer.h"
#include "sqfs/xattr.h"
#include "sqfs/id_table.h"
#include "sqfs/frag_table.h"
#include "sqfs/meta_reader.h"
#include "sqfs/block.h"

static const char *image, *scratch;
static sqfs_super_t super;
static sqfs_file_t *imgfile;
static sqfs_compressor_t *uncmp;
static sqfs_u64 inode_refs[4096], file_refs[4096], dir_refs[4096];
static size_t n_inode_refs, n_file_refs, n_dir_refs;
static sqfs_u64 meta_blocks[2][512];
static size_t n_meta[2];
static unsigned long nviol;

static uint64_t H(uint64_t h, const void *p, size_t n)
{
	const unsigned char *b = p;
	while (n--) { h ^= *b++; h *= 1099511628211ULL; }
	return h;
}
#define H0 1469598103934665603ULL
#define HV(h, v) H((h), &(v), sizeof(v))

static uint64_t rng;
static uint64_t rnd(void)
{
	uint64_t z = (rng += 0x9E3779B97F4A7C15ULL);
	z = (z ^ (z >> 30)) * 0xBF58476D1CE4E5B9ULL;
	z = (z ^ (z >> 27)) * 0x94D049BB133111EBULL;
	return z ^ (z >> 31);
}

static void fill(unsigned char *buf, size_t n, uint64_t code)
{
	size_t i;
	uint64_t s = code;
	int mode = code % 5;
	if (mode == 4) {
		/* a random segment repeated at a distance of 300..5000 bytes: only a large enough window finds the matches */
		size_t period = 300 + (code >> 24) % 4700;
		for (i = 0; i < n; ++i) {
			if (i < period) { s = s * 6364136223846793005ULL + 1442695040888963407ULL; buf[i] = s >> 56; }
			else buf[i] = buf[i - period];
		}
		return;
	}
	for (i = 0; i < n; ++i) {
		if (mode == 0) buf[i] = (unsigned char)(i * 7 + code);
		else if (mode == 1) { s = s * 6364136223846793005ULL + 1442695040888963407ULL; buf[i] = s >> 56; }
		else if (mode == 2) buf[i] = "lorem ipsum dolor sit amet "[(i + code) % 27];
		else buf[i] = (i / 64) & 1 ? 0 : (unsigned char)code;
	}
}

/* ---------------------------------------------------------------- kinds */
typedef struct kind_t {
	const char *name;
	void *(*create)(int which);
	uint64_t (*op)(void *obj, uint64_t code);
} kind_t;

static int comp_id;
static int comp_uncompress;
static int comp_options_ops;	/* histories include read_options / write_options */
static uint64_t comp_variant;	/* 0 = default options; otherwise seeds non-default options (same for all objects of a run) */

static void comp_config(sqfs_compressor_config_t *cfg)
{
	uint64_t v = comp_variant;
	sqfs_compressor_config_init(cfg, comp_id, 8192, comp_uncompress ? SQFS_COMP_FLAG_UNCOMPRESS : 0);
	if (v == 0)
		return;
	switch (comp_id) {
	case SQFS_COMP_GZIP:
		cfg->level = SQFS_GZIP_MIN_LEVEL + v % 9;
		cfg->opt.gzip.window_size = SQFS_GZIP_MIN_WINDOW + (v >> 8) % 8;
		cfg->flags |= (v >> 16) % 3 == 0 ? ((v >> 20) & SQFS_COMP_FLAG_GZIP_ALL) : 0;
		break;
	case SQFS_COMP_XZ:
		cfg->level = v % 10;
		cfg->opt.xz.lc = (v >> 8) % 5;
		cfg->opt.xz.lp = (v >> 12) % (5 - cfg->opt.xz.lc);
		cfg->opt.xz.pb = (v >> 16) % 5;
		cfg->opt.xz.dict_size = ((v >> 20) & 1) ? 8192 : (((v >> 21) & 1) ? 12288 : 16384);
		cfg->flags |= (v >> 24) % 3 == 0 ? ((v >> 28) & SQFS_COMP_FLAG_XZ_ALL) : 0;
		break;
	case SQFS_COMP_LZMA:
		cfg->level = v % 10;
		cfg->opt.lzma.lc = (v >> 8) % 5;
		cfg->opt.lzma.lp = (v >> 12) % (5 - cfg->opt.lzma.lc);
		cfg->opt.lzma.pb = (v >> 16) % 5;
		cfg->opt.lzma.dict_size = ((v >> 20) & 1) ? 8192 : 32768;
		cfg->flags |= (v >> 24) & SQFS_COMP_FLAG_LZMA_EXTREME;
		break;
	case SQFS_COMP_LZ4:
		cfg->flags |= (v & 1) ? SQFS_COMP_FLAG_LZ4_HC : 0;
		break;
	case SQFS_COMP_ZSTD:
		cfg->level = SQFS_ZSTD_MIN_LEVEL + v % 22;
		break;
	}
}


/* a 256 byte in-memory file for compressor option blocks (read_options / write_options as operations of a history) */
typedef struct { sqfs_file_t base; unsigned char data[256]; size_t size; } memfile_t;
static void mf_destroy(sqfs_object_t *o) { (void)o; }
static int mf_read_at(sqfs_file_t *f, sqfs_u64 off, void *buf, size_t n)
{
	memfile_t *m = (memfile_t *)f;
	if (off > m->size || n > m->size - off) return SQFS_ERROR_OUT_OF_BOUNDS;
	memcpy(buf, m->data + off, n);
	return 0;
}
static int mf_write_at(sqfs_file_t *f, sqfs_u64 off, const void *buf, size_t n)
{
	memfile_t *m = (memfile_t *)f;
	if (off > sizeof(m->data) || n > sizeof(m->data) - off) return SQFS_ERROR_OUT_OF_BOUNDS;
	memcpy(m->data + off, buf, n);
	if (off + n > m->size) m->size = off + n;
	return 0;
}
static sqfs_u64 mf_get_size(const sqfs_file_t *f) { return ((const memfile_t *)f)->size; }
static int mf_truncate(sqfs_file_t *f, sqfs_u64 sz) { memfile_t *m = (memfile_t *)f; if (sz > sizeof(m->data)) return SQFS_ERROR_OUT_OF_BOUNDS; m->size = sz; return 0; }
static const char *mf_name(sqfs_file_t *f) { (void)f; return "memfile"; }
static void mf_init(memfile_t *m)
{
	memset(m, 0, sizeof(*m));
	m->base.base.destroy = mf_destroy;
	m->base.read_at = mf_read_at;
	m->base.write_at = mf_write_at;
	m->base.get_size = mf_get_size;
	m->base.truncate = mf_truncate;
	m->base.get_filename = mf_name;
}
static void put16(unsigned char *p, unsigned v) { p[0] = v; p[1] = v >> 8; }
static void put32(unsigned char *p, unsigned long v) { p[0] = v; p[1] = v >> 8; p[2] = v >> 16; p[3] = v >> 24; }

/* an option block as an image would hold it behind the super block: mostly in range, sometimes not, sometimes with a wrong header */
static void comp_option_block(memfile_t *m, uint64_t code)
{
	unsigned char *o = m->data + sizeof(sqfs_super_t);
	uint64_t v = code >> 8;
	size_t sz = 8;
	int bad = (v >> 40) % 4 == 0;
	mf_init(m);
	switch (comp_id) {
	case SQFS_COMP_GZIP:
		put32(o + 2, bad && (v & 1) ? (v >> 1) % 3 * 5 : 1 + v % 9);
		put16(o + 6, bad && !(v & 1) ? (v >> 1) % 20 : 8 + (v >> 8) % 8);
		put16(o + 8, (v >> 16) % 3 ? 0 : (v >> 20) & (bad ? 0xFFFF : SQFS_COMP_FLAG_GZIP_ALL));
		break;
	case SQFS_COMP_XZ:
		put32(o + 2, bad ? (unsigned long)(v >> 4) : (((v >> 4) & 1) ? 8192 : 12288) << (v % 4));
		put32(o + 6, (v >> 16) % 3 ? 0 : (v >> 20) & (bad ? 0xFFFF : SQFS_COMP_FLAG_XZ_ALL));
		break;
	case SQFS_COMP_LZ4:
		put32(o + 2, bad ? v % 3 : 1);
		put32(o + 6, v & 1);
		break;
	case SQFS_COMP_ZSTD:
		sz = 4;
		put32(o + 2, bad ? (unsigned long)v : 1 + v % 22);
		break;
	default:
		sz = 4;
		break;
	}
	put16(o, ((v >> 44) % 16 == 0 ? 0x4000 : 0x8000) | ((v >> 48) % 16 == 0 ? sz + 1 : sz));
	m->size = sizeof(sqfs_super_t) + 2 + ((v >> 52) % 16 == 0 ? sz - 1 : sz);
}

static void *comp_create(int which)
{
	sqfs_compressor_config_t cfg;
	sqfs_compressor_t *c = NULL;
	(void)which;
	comp_config(&cfg);
	if (sqfs_compressor_create(&cfg, &c) != 0) {
		/* an option combination the library refuses: fall back to the defaults for every object alike */
		comp_variant = 0;
		comp_config(&cfg);
		if (sqfs_compressor_create(&cfg, &c) != 0)
			return NULL;
	}
	return c;
}

static uint64_t comp_op(void *obj, uint64_t code)
{
	sqfs_compressor_t *c = obj;
	unsigned char in[8192], out[8192 + 64], tmp[8192 + 64];
	sqfs_compressor_config_t cfg;
	size_t n = 1 + (code >> 8) % 8192;
	uint64_t h = H0;
	sqfs_s32 ret;

	if (code % 11 == 0) {
		c->get_configuration(c, &cfg);
		return H(h, &cfg, sizeof(cfg));
	}
	if (code % 11 == 1 && comp_options_ops) {
		/* the option block of an image is read into this object (also into a compressing one, as the API allows) */
		memfile_t m;
		comp_option_block(&m, code);
		ret = c->read_options(c, &m.base);
		h = HV(h, ret);
		c->get_configuration(c, &cfg);
		return H(h, &cfg, sizeof(cfg));
	}
	if (code % 11 == 2 && comp_options_ops) {
		memfile_t m;
		mf_init(&m);
		ret = c->write_options(c, &m.base);
		h = HV(h, ret);
		return H(h, m.data, sizeof(m.data));
	}
	fill(in, n, code);
	if (!comp_uncompress) {
		ret = c->do_block(c, in, n, out, sizeof(out));
		h = HV(h, ret);
		if (ret > 0) h = H(h, out, ret);
	} else {
		/* produce a valid compressed block with a throw-away compressor */
		sqfs_compressor_config_t cc;
		sqfs_compressor_t *enc = NULL;
		comp_config(&cc);
		cc.flags &= ~SQFS_COMP_FLAG_UNCOMPRESS;
		if (sqfs_compressor_create(&cc, &enc) != 0) return 1;
		ret = enc->do_block(enc, in, n, tmp, sizeof(tmp));
		sqfs_drop(enc);
		if (ret <= 0) return 2;
		ret = c->do_block(c, tmp, ret, out, 8192);
		h = HV(h, ret);
		if (ret > 0) h = H(h, out, ret);
	}
	return h;
}

static void *frag_create(int which) { (void)which; return sqfs_frag_table_create(0); }
static uint64_t frag_op(void *obj, uint64_t code)
{
	sqfs_frag_table_t *t = obj;
	sqfs_fragment_t f;
	sqfs_u32 idx = 0;
	uint64_t h = H0;
	int ret;
	switch (code % 4) {
	case 0: ret = sqfs_frag_table_append(t, code >> 8, (code >> 20) & 0xFFFFF, &idx); h = HV(h, ret); h = HV(h, idx); break;
	case 1: ret = sqfs_frag_table_set(t, (code >> 8) % 8, code >> 12, (code >> 30) & 0xFFFF); h = HV(h, ret); break;
	case 2: memset(&f, 0, sizeof(f)); ret = sqfs_frag_table_lookup(t, (code >> 8) % 10, &f); h = HV(h, ret); if (!ret) { h = HV(h, f.start_offset); h = HV(h, f.size); } break;
	default: { size_t n = sqfs_frag_table_get_size(t); h = HV(h, n); }
	}
	return h;
}

static void *id_create(int which) { (void)which; return sqfs_id_table_create(0); }
static uint64_t id_op(void *obj, uint64_t code)
{
	sqfs_id_table_t *t = obj;
	uint64_t h = H0;
	sqfs_u16 idx = 0;
	sqfs_u32 id = 0;
	int ret;
	if (code % 2) { ret = sqfs_id_table_id_to_index(t, (code >> 8) % 50, &idx); h = HV(h, ret); h = HV(h, idx); }
	else { ret = sqfs_id_table_index_to_id(t, (code >> 8) % 60, &id); h = HV(h, ret); if (!ret) h = HV(h, id); }
	return h;
}

static void *meta_create(int which)
{
	(void)which;
	return sqfs_meta_reader_create(imgfile, uncmp, super.inode_table_start, super.directory_table_start);
}
static uint64_t meta_op(void *obj, uint64_t code)
{
	sqfs_meta_reader_t *m = obj;
	unsigned char buf[300];
	uint64_t h = H0;
	sqfs_u64 blk, pos;
	size_t off;
	int ret;
	if (n_meta[0] == 0) return 0;
	blk = meta_blocks[0][(code >> 8) % n_meta[0]];
	if (code % 7 == 0) blk += 1;
	ret = sqfs_meta_reader_seek(m, blk, (code >> 20) % ((code % 5 == 0) ? 9000 : 3000));
	h = HV(h, ret);
	if (ret == 0) {
		ret = sqfs_meta_reader_read(m, buf, 1 + (code >> 36) % 299);
		h = HV(h, ret);
		if (ret == 0) {
			h = H(h, buf, 1 + (code >> 36) % 299);
			sqfs_meta_reader_get_position(m, &pos, &off);
			h = HV(h, pos); h = HV(h, off);
		}
	}
	return h;
}

static void *dirrd_create(int which) { (void)which; return sqfs_dir_reader_create(&super, uncmp, imgfile, 0); }
static uint64_t dirrd_op(void *obj, uint64_t code)
{
	sqfs_dir_reader_t *dr = obj;
	sqfs_inode_generic_t *ino = NULL;
	sqfs_dir_reader_state_t st;
	sqfs_dir_node_t *ent;
	uint64_t h = H0;
	sqfs_u64 ref;
	int ret, n = 0;
	if (n_inode_refs == 0) return 0;
	ref = inode_refs[(code >> 8) % n_inode_refs];
	if (code % 9 == 0) ref += 3;
	ret = sqfs_dir_reader_get_inode(dr, ref, &ino);
	h = HV(h, ret);
	if (ret) return h;
	h = HV(h, ino->base.type); h = HV(h, ino->base.inode_number); h = H(h, ino->extra, ino->payload_bytes_used);
	if (ino->base.type == SQFS_INODE_DIR || ino->base.type == SQFS_INODE_EXT_DIR) {
		ret = sqfs_dir_reader_open_dir(dr, ino, &st, SQFS_DIR_OPEN_NO_DOT_ENTRIES);
		h = HV(h, ret);
		while (ret == 0 && n < 50) {
			ret = sqfs_dir_reader_read(dr, &st, &ent);
			if (ret == 0) { h = H(h, ent->name, ent->size + 1); h = HV(h, st.ent_ref); sqfs_free(ent); ++n; }
		}
	}
	sqfs_free(ino);
	return h;
}

/* directory reader that keeps the inode number -> reference cache needed for "." and ".." entries */
static void *dirdot_create(int which) { (void)which; return sqfs_dir_reader_create(&super, uncmp, imgfile, SQFS_DIR_READER_DOT_ENTRIES); }
static uint64_t dirdot_op(void *obj, uint64_t code)
{
	sqfs_dir_reader_t *dr = obj;
	sqfs_inode_generic_t *ino = NULL;
	sqfs_dir_reader_state_t st;
	sqfs_dir_node_t *ent;
	uint64_t h = H0;
	sqfs_u64 ref;
	int ret, n = 0;
	if (n_dir_refs == 0) return 0;
	/* mostly directories from the far end of the inode table (references that need more than 32 bits) */
	ref = dir_refs[(code % 4) ? n_dir_refs - 1 - ((code >> 8) % (n_dir_refs < 40 ? n_dir_refs : 40)) : (code >> 8) % n_dir_refs];
	ret = sqfs_dir_reader_get_inode(dr, ref, &ino);
	h = HV(h, ret);
	if (ret) return h;
	ret = sqfs_dir_reader_open_dir(dr, ino, &st, 0);
	h = HV(h, ret);
	while (ret == 0 && n < 6) {
		ret = sqfs_dir_reader_read(dr, &st, &ent);
		if (ret == 0) { h = H(h, ent->name, ent->size + 1); h = HV(h, st.ent_ref); sqfs_free(ent); ++n; }
	}
	sqfs_free(ino);
	return h;
}

static void *data_create(int which)
{
	sqfs_data_reader_t *d = sqfs_data_reader_create(imgfile, super.block_size, uncmp, 0);
	(void)which;
	if (d && sqfs_data_reader_load_fragment_table(d, &super) != 0) { sqfs_drop(d); return NULL; }
	return d;
}
static sqfs_dir_reader_t *helper_dr;
static uint64_t data_op(void *obj, uint64_t code)
{
	sqfs_data_reader_t *d = obj;
	sqfs_inode_generic_t *ino = NULL;
	unsigned char *buf;
	uint64_t h = H0;
	sqfs_u64 size = 0;
	int ret;
	if (n_file_refs == 0) return 0;
	if (sqfs_dir_reader_get_inode(helper_dr, file_refs[(code >> 8) % n_file_refs], &ino) != 0) return 1;
	sqfs_inode_get_file_size(ino, &size);
	switch (code % 3) {
	case 0: {
		sqfs_s32 n;
		sqfs_u64 off = size ? (code >> 20) % (size + 10) : 0;
		buf = malloc(20000);
		n = sqfs_data_reader_read(d, ino, off, buf, 1 + (code >> 40) % 19999);
		h = HV(h, n); if (n > 0) h = H(h, buf, n);
		free(buf);
		break;
	}
	case 1: {
		size_t sz; sqfs_u8 *blk = NULL;
		ret = sqfs_data_reader_get_block(d, ino, (code >> 20) % 6, &sz, &blk);
		h = HV(h, ret); if (!ret) { h = H(h, blk, sz); free(blk); }
		break;
	}
	default: {
		size_t sz; sqfs_u8 *blk = NULL;
		ret = sqfs_data_reader_get_fragment(d, ino, &sz, &blk);
		h = HV(h, ret); if (!ret && blk) { h = H(h, blk, sz); free(blk); }
	}
	}
	sqfs_free(ino);
	return h;
}

static sqfs_u32 xattr_ids;
static void *xr_create(int which)
{
	if (!xattr_ids && !(super.flags & SQFS_FLAG_NO_XATTRS) && super.xattr_id_table_start != 0xFFFFFFFFFFFFFFFFULL) {
		unsigned char hdr[16];
		if (imgfile->read_at(imgfile, super.xattr_id_table_start, hdr, sizeof(hdr)) == 0)
			xattr_ids = hdr[8] | (hdr[9] << 8) | (hdr[10] << 16) | ((sqfs_u32)hdr[11] << 24);
	}
	sqfs_xattr_reader_t *x = sqfs_xattr_reader_create(0);
	(void)which;
	if (x && sqfs_xattr_reader_load(x, &super, imgfile, uncmp) != 0) { sqfs_drop(x); return NULL; }
	return x;
}
static uint64_t xr_op(void *obj, uint64_t code)
{
	sqfs_xattr_reader_t *x = obj;
	sqfs_xattr_t *l = NULL, *it;
	uint64_t h = H0;
	int ret = sqfs_xattr_reader_read_all(x, (code >> 8) % (xattr_ids + 3), &l);
	h = HV(h, ret);
	if (!ret) {
		for (it = l; it; it = it->next) { h = H(h, it->key, strlen(it->key)); h = H(h, it->value, it->value_len); }
		sqfs_xattr_list_free(l);
	}
	return h;
}

static void *file_create(int which)
{
	sqfs_file_t *f = NULL;
	(void)which;
	if (sqfs_file_open(&f, image, SQFS_FILE_OPEN_READ_ONLY) != 0) return NULL;
	return f;
}
static uint64_t file_op(void *obj, uint64_t code)
{
	sqfs_file_t *f = obj;
	unsigned char buf[700];
	uint64_t h = H0;
	sqfs_u64 size = f->get_size(f), off = size ? (code >> 8) % (size + 20) : 0;
	size_t n = 1 + (code >> 40) % 699;
	int ret = f->read_at(f, off, buf, n);
	h = HV(h, size); h = HV(h, ret);
	if (!ret) h = H(h, buf, n);
	return h;
}

static void *xw_create(int which) { (void)which; return sqfs_xattr_writer_create(0); }
static int xw_counter;
static uint64_t xw_flush_hash(sqfs_xattr_writer_t *w)
{
	char path[512];
	sqfs_file_t *f = NULL;
	sqfs_super_t s;
	sqfs_compressor_config_t cfg;
	sqfs_compressor_t *c = NULL;
	unsigned char *buf;
	uint64_t h = H0;
	sqfs_u64 sz;
	int ret;
	snprintf(path, sizeof(path), "%s/xw%d.bin", scratch, xw_counter++);
	if (sqfs_file_open(&f, path, SQFS_FILE_OPEN_OVERWRITE) != 0) return 3;
	sqfs_super_init(&s, 4096, 0, SQFS_COMP_GZIP);
	sqfs_compressor_config_init(&cfg, SQFS_COMP_GZIP, 4096, 0);
	sqfs_compressor_create(&cfg, &c);
	ret = sqfs_xattr_writer_flush(w, f, &s, c);
	h = HV(h, ret); h = HV(h, s.xattr_id_table_start); h = HV(h, s.flags);
	sz = f->get_size(f);
	if (sz && sz < (1 << 22)) { buf = malloc(sz); if (f->read_at(f, 0, buf, sz) == 0) h = H(h, buf, sz); free(buf); }
	h = HV(h, sz);
	sqfs_drop(c); sqfs_drop(f);
	unlink(path);
	return h;
}
static uint64_t xw_op(void *obj, uint64_t code)
{
	sqfs_xattr_writer_t *w = obj;
	static const char *keys[] = { "user.a", "user.b", "trusted.c", "security.d", "user.long_key_name" };
	char val[64];
	uint64_t h = H0;
	sqfs_u32 idx = 0;
	int ret, i, n;
	if (code % 6 == 0)
		return xw_flush_hash(w);
	ret = sqfs_xattr_writer_begin(w, 0);
	h = HV(h, ret);
	n = (code >> 8) % 4;
	for (i = 0; i < n; ++i) {
		int vl = snprintf(val, sizeof(val), "value-%d", (int)((code >> (12 + 4 * i)) % 5));
		if ((code >> 30) % 3 == 0) vl = snprintf(val, sizeof(val), "a-long-shared-value-%d-xxxxxxxxxxxxxxxx", (int)((code >> (12 + 4 * i)) % 3));
		ret = sqfs_xattr_writer_add_kv(w, keys[(code >> (16 + 3 * i)) % 5], val, vl);
		h = HV(h, ret);
	}
	ret = sqfs_xattr_writer_end(w, &idx);
	h = HV(h, ret); h = HV(h, idx);
	return h;
}

static int open_image(void)
{
	sqfs_compressor_config_t cfg;
	sqfs_dir_reader_t *dr;
	sqfs_inode_generic_t *root = NULL;
	sqfs_u64 pos;
	int t;

	if (sqfs_file_open(&imgfile, image, SQFS_FILE_OPEN_READ_ONLY)) return -1;
	if (sqfs_super_read(&super, imgfile)) return -1;
	sqfs_compressor_config_init(&cfg, super.compression_id, super.block_size, SQFS_COMP_FLAG_UNCOMPRESS);
	if (sqfs_compressor_create(&cfg, &uncmp)) return -1;
	if (super.flags & SQFS_FLAG_COMPRESSOR_OPTIONS) uncmp->read_options(uncmp, imgfile);
	for (t = 0; t < 2; ++t) {
		sqfs_u64 end = t ? super.id_table_start : super.directory_table_start;
		pos = t ? super.directory_table_start : super.inode_table_start;
		if (t && super.fragment_table_start < end) end = super.fragment_table_start;
		if (t && super.export_table_start < end) end = super.export_table_start;
		while (pos + 2 <= end && n_meta[t] < 512) {
			sqfs_u16 hdr;
			if (imgfile->read_at(imgfile, pos, &hdr, 2)) break;
			meta_blocks[t][n_meta[t]++] = pos;
			pos += 2 + (hdr & 0x7FFF);
			if ((hdr & 0x7FFF) == 0) break;
		}
	}
	/* collect inode references with a breadth first walk */
	dr = sqfs_dir_reader_create(&super, uncmp, imgfile, 0);
	if (!dr) return -1;
	helper_dr = dr;
	inode_refs[n_inode_refs++] = super.root_inode_ref;
	for (size_t i = 0; i < n_inode_refs && n_inode_refs < 4000; ++i) {
		sqfs_inode_generic_t *ino = NULL;
		sqfs_dir_reader_state_t st;
		sqfs_dir_node_t *ent;
		if (sqfs_dir_reader_get_inode(dr, inode_refs[i], &ino)) continue;
		if (ino->base.type == SQFS_INODE_FILE || ino->base.type == SQFS_INODE_EXT_FILE) {
			if (n_file_refs < 4000) file_refs[n_file_refs++] = inode_refs[i];
		} else if ((ino->base.type == SQFS_INODE_DIR || ino->base.type == SQFS_INODE_EXT_DIR) &&
			   sqfs_dir_reader_open_dir(dr, ino, &st, SQFS_DIR_OPEN_NO_DOT_ENTRIES) == 0) {
			if (n_dir_refs < 4000) dir_refs[n_dir_refs++] = inode_refs[i];
			while (sqfs_dir_reader_read(dr, &st, &ent) == 0) {
				if (n_inode_refs < 4000) inode_refs[n_inode_refs++] = st.ent_ref;
				sqfs_free(ent);
			}
		}
		sqfs_free(ino);
	}
	/* ascending by reference: the last ones lie deepest in the inode table */
	for (size_t i = 1; i < n_dir_refs; ++i) {
		sqfs_u64 v = dir_refs[i];
		size_t j = i;
		while (j > 0 && dir_refs[j - 1] > v) { dir_refs[j] = dir_refs[j - 1]; --j; }
		dir_refs[j] = v;
	}
	(void)root;
	return 0;
}

int main(int argc, char **argv)
{
	static const struct { const char *name; int id; int unc; } comps[] = {
		{ "gzip", SQFS_COMP_GZIP, 0 }, { "xz", SQFS_COMP_XZ, 0 }, { "lzma", SQFS_COMP_LZMA, 0 }, { "lz4", SQFS_COMP_LZ4, 0 }, { "zstd", SQFS_COMP_ZSTD, 0 },
		{ "gzip-unc", SQFS_COMP_GZIP, 1 }, { "xz-unc", SQFS_COMP_XZ, 1 }, { "lzma-unc", SQFS_COMP_LZMA, 1 }, { "lz4-unc", SQFS_COMP_LZ4, 1 }, { "zstd-unc", SQFS_COMP_ZSTD, 1 },
	};
	kind_t k = { NULL, NULL, NULL };
	void *o1, *o2, *o3, *c, *cc = NULL;
	int order, i, pre, steps, copy_of_copy, fail_copies;
	unsigned long failed_copies = 0;
	unsigned long ops = 0, mism = 0;

	if (argc < 6) { fprintf(stderr, "usage\n"); return 2; }
	rng = strtoull(argv[2], NULL, 0) * 0x9E3779B97F4A7C15ULL + 99;
	order = atoi(argv[3]);
	image = argv[4];
	scratch = argv[5];
	copy_of_copy = argc > 6 && !strcmp(argv[6], "cc");
	fail_copies = argc > 6 && !strcmp(argv[6], "failcopy");
	if (open_image() != 0) { printf("HARNESS-ERROR cannot open image\n"); return 2; }
	comp_variant = (strtoull(argv[2], NULL, 0) % 4 == 0) ? 0 : (rng >> 7) | 1;
	comp_options_ops = (strtoull(argv[2], NULL, 0) / 4) % 2;

	for (i = 0; i < 10; ++i)
		if (!strcmp(argv[1], comps[i].name)) {
			comp_id = comps[i].id; comp_uncompress = comps[i].unc;
			k.name = comps[i].name; k.create = comp_create; k.op = comp_op;
		}
	if (!strcmp(argv[1], "frag")) { k.name = "frag"; k.create = frag_create; k.op = frag_op; }
	if (!strcmp(argv[1], "id")) { k.name = "id"; k.create = id_create; k.op = id_op; }
	if (!strcmp(argv[1], "meta")) { k.name = "meta"; k.create = meta_create; k.op = meta_op; }
	if (!strcmp(argv[1], "dir")) { k.name = "dir"; k.create = dirrd_create; k.op = dirrd_op; }
	if (!strcmp(argv[1], "dir-dot")) { k.name = "dir-dot"; k.create = dirdot_create; k.op = dirdot_op; }
	if (!strcmp(argv[1], "data")) { k.name = "data"; k.create = data_create; k.op = data_op; }
	if (!strcmp(argv[1], "xattr-reader")) { k.name = "xattr-reader"; k.create = xr_create; k.op = xr_op; }
	if (!strcmp(argv[1], "file")) { k.name = "file"; k.create = file_create; k.op = file_op; }
	if (!strcmp(argv[1], "xattr-writer")) { k.name = "xattr-writer"; k.create = xw_create; k.op = xw_op; }
	if (!k.name) { fprintf(stderr, "unknown kind\n"); return 2; }

	o1 = k.create(1); o2 = k.create(2); o3 = k.create(3);
	if (!o1 || !o2 || !o3) { printf("HARNESS-ERROR create failed\n"); return 2; }
	pre = rnd() % 12;
	for (i = 0; i < pre; ++i) {
		uint64_t code = rnd(), a = k.op(o1, code), b = k.op(o2, code), d = k.op(o3, code);
		if (a != b || a != d) { printf("HARNESS-ERROR twins disagree before the copy (op %d)\n", i); return 2; }
		ops += 3;
	}
	if (fail_copies) {
		/* every allocation made by sqfs_copy fails once: the failed copy must leave the original as it was */
		unsigned long kth;
		for (kth = 1; kth < 300; ++kth) {
			int fired;
			verif_arm_alloc_fault(kth);
			c = sqfs_copy(o1);
			fired = verif_disarm_fault();
			if (!fired)
				break;
			if (c != NULL) { sqfs_drop(c); c = NULL; }
			else failed_copies++;
			for (i = 0; i < 3; ++i) {
				uint64_t os = rnd();
				ops += 2;
				k.op(o2, os);	/* keep all three twins in step */
				if (k.op(o1, os) != k.op(o3, os)) { printf("VIOL original-affected-by-failed-copy kind=%s alloc=%lu\n", k.name, kth); nviol++; goto out; }
			}
		}
		if (c != NULL) { sqfs_drop(c); c = NULL; }
	}
	c = sqfs_copy(o1);
	if (c == NULL) { printf("VIOL copy-failed kind=%s\n", k.name); nviol++; goto out; }
	if (copy_of_copy) {
		cc = sqfs_copy(c);
		if (cc == NULL) { printf("VIOL copy-of-copy-failed kind=%s\n", k.name); nviol++; }
	}
	steps = 10 + rnd() % 40;
	for (i = 0; i < steps; ++i) {
		uint64_t cs = rnd(), os = rnd(), a, b;
		int who = rnd() % 3;
		if (who != 1) {
			a = k.op(c, cs); b = k.op(o2, cs);
			if (cc) { uint64_t e = k.op(cc, cs); if (e != b) { if (mism++ < 3) printf("VIOL copy-of-copy-answers-differently kind=%s step=%d\n", k.name, i); nviol++; } }
			ops += 2;
			if (a != b) { if (mism++ < 3) printf("VIOL copy-answers-differently kind=%s step=%d pre=%d\n", k.name, i, pre); nviol++; }
		}
		if (who != 0) {
			a = k.op(o1, os); b = k.op(o3, os);
			ops += 2;
			if (a != b) { if (mism++ < 3) printf("VIOL original-affected-by-copy kind=%s step=%d pre=%d\n", k.name, i, pre); nviol++; }
		}
	}
	/* release in the requested order, keep using the survivor afterwards */
	if (order == 0) {
		sqfs_drop(o1); o1 = NULL;
		for (i = 0; i < 8; ++i) { uint64_t cs = rnd(); if (k.op(c, cs) != k.op(o2, cs)) { printf("VIOL copy-broken-after-original-released kind=%s\n", k.name); nviol++; break; } }
		sqfs_drop(c); c = NULL;
	} else {
		sqfs_drop(c); c = NULL;
		for (i = 0; i < 8; ++i) { uint64_t os = rnd(); if (k.op(o1, os) != k.op(o3, os)) { printf("VIOL original-broken-after-copy-released kind=%s\n", k.name); nviol++; break; } }
		sqfs_drop(o1); o1 = NULL;
	}
	if (cc) {
		for (i = 0; i < 4; ++i) { uint64_t cs = rnd(); k.op(cc, cs); }
		sqfs_drop(cc);
	}
out:
	sqfs_drop(o1); sqfs_drop(c); sqfs_drop(o2); sqfs_drop(o3);
	sqfs_drop(helper_dr); sqfs_drop(uncmp); sqfs_drop(imgfile);
	printf("RESULT kind=%s ops=%lu viol=%lu failed_copies=%lu\n", k.name, ops, nviol, failed_copies);
	return nviol ? 1 : 0;
}
