/* C09 monitor 1: the unmodified thread pool under the controllable scheduler.
 * usage:
 *   pool_sched dfs  <P> <cap> <spur> <W> <N> <f> <pat>         enumerate schedules depth first (preemption bound P, -1 = none)
 *   pool_sched rand <count> <seed> <spur> <W> <N> <f> <pat>    random walks
 *   pool_sched replay <W> <N> <f> <pat> <d0,d1,...>
 * Output: one "RESULT ..." line; "VIOL ..." lines for assertion failures; the scheduler prints "DEADLOCK ..." and exits 3. */
#include <stdio.h>
#include <stdlib.h>
#include <string.h>
#include "vsched.h"
#include "util/threadpool.h"

#define MAXN 8
#define MAXW 4

typedef struct { int id; int processed; int returned; } item_t;
typedef struct { int busy; int idx; int calls; } ctx_t;

static item_t items[MAXN];
static ctx_t ctx[MAXW];
static int fail_item = -1;
static unsigned long nviol;
static int W, N, F, PAT;
static char sched_desc[8192];

static void viol(const char *what)
{
	nviol++;
	if (nviol > 5)
		return;
	printf("VIOL %s W=%d N=%d f=%d pat=%d prefix=%s schedule=", what, W, N, F, PAT, sched_desc);
	vs_print_schedule();
	printf("\n");
	fflush(stdout);
}

static int worker_cb(void *user, void *work)
{
	ctx_t *c = user;
	item_t *it = work;

	if (c == NULL) {
		viol("worker-context-null");
		return -1;
	}
	if (c->busy)
		viol("context-used-by-two-workers");
	c->busy = 1;
	c->calls++;
	vs_yield();
	it->processed++;
	if (it->processed > 1)
		viol("item-processed-twice");
	vs_yield();
	c->busy = 0;
	/* worker callbacks may report any non-zero status */
	return (it->id == fail_item) ? ((PAT + N) % 2 ? 5 : -7) : 0;
}

static int expect_next;
static int failed_seen;

static int do_dequeue(thread_pool_t *pool, int may_be_empty)
{
	item_t *it = pool->dequeue(pool);

	if (it == NULL) {
		if (may_be_empty)
			return 0;
		if (fail_item < 0) {
			viol("dequeue-returned-null-without-failure");
			return 0;
		}
		if (pool->get_status(pool) == 0)
			viol("dequeue-null-but-status-ok");
		failed_seen = 1;
		return 0;
	}
	if (it < items || it >= items + MAXN) {
		viol("dequeue-returned-foreign-pointer");
		return 0;
	}
	it->returned++;
	if (it->returned > 1)
		viol("item-handed-back-twice");
	if (it->id != expect_next)
		viol("handed-back-out-of-order");
	expect_next = it->id + 1;
	if (it->processed != 1)
		viol("handed-back-unprocessed-item");
	return 1;
}

static void run_scenario(void)
{
	thread_pool_t *pool;
	int i, submitted = 0, got = 0, st;

	memset(items, 0, sizeof(items));
	memset(ctx, 0, sizeof(ctx));
	for (i = 0; i < MAXN; ++i)
		items[i].id = i;
	expect_next = 0;
	failed_seen = 0;
	fail_item = F;

	pool = thread_pool_create(W, worker_cb);
	if (pool == NULL) {
		viol("pool-create-failed");
		return;
	}
	if ((int)pool->get_worker_count(pool) != W)
		viol("worker-count");
	for (i = 0; i < W; ++i) {
		ctx[i].idx = i;
		pool->set_worker_ptr(pool, i, &ctx[i]);
	}

	switch (PAT) {
	case 0:	/* submit all, then dequeue all */
		for (i = 0; i < N; ++i)
			if (pool->submit(pool, &items[i]) == 0)
				submitted++;
			else if (fail_item < 0)
				viol("submit-failed-without-failure");
		for (i = 0; i < submitted && !failed_seen; ++i)
			got += do_dequeue(pool, 0);
		break;
	case 1:	/* alternate */
		for (i = 0; i < N && !failed_seen; ++i) {
			if (pool->submit(pool, &items[i]) != 0) {
				if (fail_item < 0)
					viol("submit-failed-without-failure");
				break;
			}
			submitted++;
			got += do_dequeue(pool, 0);
		}
		break;
	case 2:	/* dequeue on empty, status between */
		if (pool->dequeue(pool) != NULL)
			viol("dequeue-on-empty-returned-item");
		for (i = 0; i < N; ++i) {
			if (pool->submit(pool, &items[i]) == 0)
				submitted++;
			st = pool->get_status(pool);
			if (st != 0 && fail_item < 0)
				viol("status-nonzero-without-failure");
		}
		for (i = 0; i < submitted && !failed_seen; ++i)
			got += do_dequeue(pool, 0);
		if (!failed_seen && pool->dequeue(pool) != NULL)
			viol("dequeue-after-drain-returned-item");
		break;
	case 3:	/* destroy with work pending */
		for (i = 0; i < N; ++i)
			if (pool->submit(pool, &items[i]) == 0)
				submitted++;
		for (i = 0; i < submitted / 2 && !failed_seen; ++i)
			got += do_dequeue(pool, 0);
		break;
	default: /* submit 2, dequeue 1, submit rest, dequeue all */
		for (i = 0; i < N && i < 2; ++i)
			if (pool->submit(pool, &items[i]) == 0)
				submitted++;
		if (submitted > 0)
			got += do_dequeue(pool, 0);
		for (; i < N && !failed_seen; ++i)
			if (pool->submit(pool, &items[i]) == 0)
				submitted++;
		while (got < submitted && !failed_seen) {
			int g = do_dequeue(pool, 0);
			if (!g)
				break;
			got += g;
		}
		break;
	}

	if (fail_item >= 0 && !failed_seen && PAT != 3) {
		/* the failure must be visible at the latest now */
		if (fail_item < submitted && items[fail_item].processed && pool->get_status(pool) == 0)
			viol("failure-status-lost");
	}
	if (fail_item < 0 && PAT != 3 && got != N)
		viol("not-all-items-handed-back");

	pool->destroy(pool);

	for (i = 0; i < N; ++i) {
		if (items[i].processed > 1)
			viol("item-processed-twice");
		if (fail_item < 0 && PAT != 3 && items[i].processed != 1)
			viol("item-never-processed");
		if (items[i].returned > 1)
			viol("item-handed-back-twice");
	}
	for (i = 0; i < W; ++i)
		if (ctx[i].busy)
			viol("context-left-busy");
}

static int cmp_u64(const void *a, const void *b)
{
	unsigned long long x = *(const unsigned long long *)a, y = *(const unsigned long long *)b;
	return x < y ? -1 : x > y;
}

int main(int argc, char **argv)
{
	static int prefix[4096];
	size_t plen = 0, L, i;
	const int *d, *o;
	unsigned long execs = 0, cap, maxchoices = 0, sumchoices = 0;
	int complete = 0, maxpre = 0, spurtaken = 0;

	if (argc >= 9 && !strcmp(argv[1], "dfs")) {
		int P = atoi(argv[2]), spur = atoi(argv[4]);
		cap = strtoul(argv[3], NULL, 0);
		W = atoi(argv[5]); N = atoi(argv[6]); F = atoi(argv[7]); PAT = atoi(argv[8]);
		for (;;) {
			size_t k;
			sched_desc[0] = 0;
			for (k = 0; k < plen && k < 400; ++k)
				sprintf(sched_desc + strlen(sched_desc), "%d,", prefix[k]);
			vs_begin(prefix, plen, 0, 0, P, spur);
			run_scenario();
			L = vs_end(&d, &o, NULL);
			execs++;
			if (L > maxchoices) maxchoices = L;
			sumchoices += L;
			if (vs_preemptions_used() > maxpre) maxpre = vs_preemptions_used();
			spurtaken += vs_spurious_used();
			if (L >= 4096)
				break;
			i = L;
			while (i > 0 && d[i - 1] + 1 >= o[i - 1])
				i--;
			if (i == 0) {
				complete = 1;
				break;
			}
			memcpy(prefix, d, (i - 1) * sizeof(int));
			prefix[i - 1] = d[i - 1] + 1;
			plen = i;
			if (execs >= cap)
				break;
		}
		printf("RESULT mode=dfs P=%d spur=%d W=%d N=%d f=%d pat=%d execs=%lu distinct=%lu complete=%d maxchoices=%lu avgchoices=%lu maxpreempt=%d spurious=%d viol=%lu\n",
		       P, spur, W, N, F, PAT, execs, execs, complete, maxchoices, sumchoices / (execs ? execs : 1), maxpre, spurtaken, nviol);
	} else if (argc >= 9 && !strcmp(argv[1], "rand")) {
		unsigned long count = strtoul(argv[2], NULL, 0), distinct = 0;
		unsigned long long seed = strtoull(argv[3], NULL, 0), *hs;
		int spur = atoi(argv[4]);
		W = atoi(argv[5]); N = atoi(argv[6]); F = atoi(argv[7]); PAT = atoi(argv[8]);
		hs = calloc(count, sizeof(*hs));
		for (execs = 0; execs < count; ++execs) {
			sprintf(sched_desc, "random-seed-%llu", seed + execs);
			vs_begin(NULL, 0, 1, seed + execs, -1, spur);
			run_scenario();
			L = vs_end(&d, &o, NULL);
			hs[execs] = vs_schedule_hash();
			if (L > maxchoices) maxchoices = L;
			sumchoices += L;
			if (vs_preemptions_used() > maxpre) maxpre = vs_preemptions_used();
			spurtaken += vs_spurious_used();
		}
		qsort(hs, count, sizeof(*hs), cmp_u64);
		for (i = 0; i < count; ++i)
			if (i == 0 || hs[i] != hs[i - 1])
				distinct++;
		printf("RESULT mode=rand P=-1 spur=%d W=%d N=%d f=%d pat=%d execs=%lu distinct=%lu complete=0 maxchoices=%lu avgchoices=%lu maxpreempt=%d spurious=%d viol=%lu\n",
		       spur, W, N, F, PAT, execs, distinct, maxchoices, sumchoices / (execs ? execs : 1), maxpre, spurtaken, nviol);
	} else if (argc >= 7 && !strcmp(argv[1], "replay")) {
		char *p = argv[6];
		W = atoi(argv[2]); N = atoi(argv[3]); F = atoi(argv[4]); PAT = atoi(argv[5]);
		while (*p) {
			prefix[plen++] = atoi(p);
			p = strchr(p, ',');
			if (!p) break;
			++p;
		}
		strcpy(sched_desc, argv[6]);
		vs_begin(prefix, plen, 0, 0, -1, 2);
		run_scenario();
		vs_end(NULL, NULL, NULL);
		printf("RESULT mode=replay viol=%lu\n", nviol);
	} else {
		fprintf(stderr, "usage\n");
		return 2;
	}
	return nviol ? 1 : 0;
}
