/* C09 monitor 3: the real thread pool with real threads, built with ThreadSanitizer.
 * usage: pool_stress <rounds> <seed>
 * Client-boundary assertions as in pool_sched; any TSan report is a violation. */
#include <stdio.h>
#include <stdlib.h>
#include <string.h>
#include <stdint.h>
#include <sched.h>
#include "util/threadpool.h"

typedef struct { int id; int processed; int returned; int work; } item_t;
typedef struct { int busy; unsigned long calls; } ctx_t;

static int fail_item;
static unsigned long nviol;

static void viol(const char *w, int round)
{
	if (nviol++ < 10)
		printf("VIOL %s round=%d\n", w, round);
}

static int cb(void *user, void *work)
{
	ctx_t *c = user;
	item_t *it = work;
	volatile unsigned x = 0;
	int i;
	if (c->busy)
		return -100;
	c->busy = 1;
	c->calls++;
	for (i = 0; i < it->work; ++i)
		x += i;
	if (it->work % 7 == 0)
		sched_yield();
	it->processed++;
	c->busy = 0;
	return it->id == fail_item ? (it->id % 2 ? 9 : -7) : 0;
}

static uint64_t rng;
static uint64_t rnd(void)
{
	uint64_t z = (rng += 0x9E3779B97F4A7C15ULL);
	z = (z ^ (z >> 30)) * 0xBF58476D1CE4E5B9ULL;
	z = (z ^ (z >> 27)) * 0x94D049BB133111EBULL;
	return z ^ (z >> 31);
}

int main(int argc, char **argv)
{
	int rounds = argc > 1 ? atoi(argv[1]) : 50, r;
	unsigned long total_items = 0, failures = 0, ooo = 0;
	rng = argc > 2 ? strtoull(argv[2], NULL, 0) : 1;

	for (r = 0; r < rounds; ++r) {
		int W = 1 + rnd() % 16, N = 1 + rnd() % (r % 5 == 0 ? 3000 : 200), i, expect = 0, submitted = 0, got = 0, failed = 0;
		int outstanding_max = 1 + rnd() % 64;
		item_t *items = calloc(N, sizeof(*items));
		ctx_t *ctx = calloc(W, sizeof(*ctx));
		thread_pool_t *pool = thread_pool_create(W, cb);
		fail_item = (rnd() % 3 == 0) ? (int)(rnd() % N) : -1;
		if (!pool) { viol("create", r); break; }
		for (i = 0; i < W; ++i)
			pool->set_worker_ptr(pool, i, &ctx[i]);
		for (i = 0; i < N; ++i) {
			items[i].id = i;
			items[i].work = rnd() % 4 == 0 ? (int)(rnd() % 20000) : (int)(rnd() % 50);
		}
		i = 0;
		while (!failed && (i < N || got < submitted)) {
			while (i < N && submitted - got < outstanding_max) {
				if (pool->submit(pool, &items[i]) != 0) {
					if (fail_item < 0) viol("submit-failed-without-failure", r);
					failed = 1;
					break;
				}
				submitted++;
				i++;
			}
			if (failed) break;
			if (got < submitted) {
				item_t *it = pool->dequeue(pool);
				if (it == NULL) {
					if (fail_item < 0) viol("dequeue-null-without-failure", r);
					else if (pool->get_status(pool) == 0) viol("dequeue-null-but-status-ok", r);
					failed = 1;
					break;
				}
				if (it->id != expect) { viol("out-of-order", r); ooo++; }
				expect = it->id + 1;
				if (++it->returned > 1) viol("handed-back-twice", r);
				if (it->processed != 1) viol("handed-back-unprocessed", r);
				got++;
			}
		}
		if (fail_item >= 0 && !failed && pool->get_status(pool) == 0 && items[fail_item].processed)
			viol("failure-status-lost", r);
		if (fail_item < 0 && got != N)
			viol("not-all-handed-back", r);
		if (pool->get_status(pool) == -100)
			viol("context-used-by-two-workers", r);
		pool->destroy(pool);
		for (i = 0; i < N; ++i)
			if (items[i].processed > 1) viol("processed-twice", r);
		total_items += N;
		failures += failed;
		free(items);
		free(ctx);
	}
	printf("RESULT rounds=%d items=%lu failed_rounds=%lu viol=%lu\n", rounds, total_items, failures, nviol);
	return nviol ? 1 : 0;
}
