/* C09 monitor 2: the real block processor on top of (a) the controlled pool (-DSCHED),
 * (b) the serial reference pool (linked against the 'serial' variant), (c) real threads.
 * A scripted compressor and a recording block writer are supplied through the public
 * descriptor; the harness prints a hash of everything observable (write order, sizes,
 * flags, inode contents, fragment table).
 *
 * usage: blkproc ref <scenario> <W> <Q>
 *        blkproc dfs <P> <cap> <scenario> <W> <Q>        (SCHED only)
 *        blkproc rand <count> <seed> <scenario> <W> <Q>  (SCHED only)
 */
#include <stdio.h>
#include <stdlib.h>
#include <string.h>
#include <stdint.h>
#include "sqfs/block_processor.h"
#include "sqfs/block_writer.h"
#include "sqfs/frag_table.h"
#include "sqfs/compressor.h"
#include "sqfs/inode.h"
#include "sqfs/block.h"
#include "sqfs/error.h"
#ifdef SCHED
#include "vsched.h"
#endif

#define BS 64

/* ---- scripted compressor: first byte of the block decides ---- */
typedef struct { sqfs_compressor_t base; int calls; } scomp_t;

static void scomp_destroy(sqfs_object_t *o) { free(o); }
static sqfs_object_t *scomp_copy(const sqfs_object_t *o)
{
	scomp_t *c = malloc(sizeof(*c));
	if (c) { memcpy(c, o, sizeof(*c)); c->calls = 0; }
	return (sqfs_object_t *)c;
}
static void scomp_cfg(const sqfs_compressor_t *c, sqfs_compressor_config_t *cfg) { (void)c; memset(cfg, 0, sizeof(*cfg)); }
static int scomp_wo(sqfs_compressor_t *c, sqfs_file_t *f) { (void)c; (void)f; return 0; }
static int scomp_ro(sqfs_compressor_t *c, sqfs_file_t *f) { (void)c; (void)f; return 0; }
static sqfs_s32 scomp_do(sqfs_compressor_t *base, const sqfs_u8 *in, sqfs_u32 size, sqfs_u8 *out, sqfs_u32 outsize)
{
	scomp_t *c = (scomp_t *)base;
	sqfs_u32 n;
	c->calls++;
#ifdef SCHED
	vs_yield();
#endif
	(void)outsize;
	if (size == 0)
		return 0;
	switch (in[0]) {
	case 'F':
		return SQFS_ERROR_COMPRESSOR;
	case 'I':
		return 0;
	default:
		n = size / 2 ? size / 2 : 1;
		if (n >= size)
			return 0;
		memcpy(out, in, n);
		out[0] ^= 0x80;
#ifdef SCHED
		vs_yield();
#endif
		return n;
	}
}

static sqfs_compressor_t *scomp_create(void)
{
	scomp_t *c = calloc(1, sizeof(*c));
	sqfs_object_init(c, scomp_destroy, scomp_copy);
	c->base.get_configuration = scomp_cfg;
	c->base.write_options = scomp_wo;
	c->base.read_options = scomp_ro;
	c->base.do_block = scomp_do;
	return (sqfs_compressor_t *)c;
}

/* ---- recording block writer ---- */
typedef struct { sqfs_block_writer_t base; uint64_t off; uint64_t hash; unsigned long nblocks; } rwr_t;

static uint64_t mix(uint64_t h, uint64_t v) { h ^= v; h *= 1099511628211ULL; return h; }

static int rwr_write(sqfs_block_writer_t *base, void *user, sqfs_u32 size, sqfs_u32 checksum, sqfs_u32 flags,
		     const sqfs_u8 *data, sqfs_u64 *location)
{
	rwr_t *w = (rwr_t *)base;
	sqfs_u32 i;
	(void)user;
	*location = w->off;
	w->hash = mix(w->hash, size);
	w->hash = mix(w->hash, checksum);
	w->hash = mix(w->hash, flags);
	for (i = 0; i < size; ++i)
		w->hash = mix(w->hash, data[i]);
	if (!(flags & SQFS_BLK_IS_SPARSE))
		w->off += size;
	w->nblocks++;
	return 0;
}
static sqfs_u64 rwr_count(const sqfs_block_writer_t *b) { return ((const rwr_t *)b)->nblocks; }
static void rwr_destroy(sqfs_object_t *o) { free(o); }

/* ---- scenarios: files as sequences of (type, length) ---- */
typedef struct { const char *name; const char *files[12]; } scenario_t;
static const scenario_t scenarios[] = {
	{ "two-files", { "C64 I64 C10", "I64 C64 C64 I3", NULL } },
	{ "tails", { "C10", "I20", "C30", "I40", "C50", "I10", "C64 C5", NULL } },
	{ "sparse", { "Z64 C64 Z64 Z7", "Z64", "C64 Z64", "Z10", NULL } },
	{ "dups", { "C64 C64 C9", "C64 C64 C9", "I30", "I30", "C9", NULL } },
	{ "fail-first", { "F64 C64", "C64", NULL } },
	{ "fail-mid", { "C64 C64", "C64 F64 C64 C64", "C10", NULL } },
	{ "fail-last", { "C64 C64", "C20", "C64 C64 F64", NULL } },
	{ "fail-frag", { "F10", "C20", "C30", "C30", "C64 C5", NULL } },
	/* the failing compressor call is the one for the last fragment block, which finish() itself submits */
	{ "fail-final-frag", { "C64", "F10", "C20", NULL } },
	{ "fail-final-frag-only", { "F7", NULL } },
	{ "fail-last-block-then-frag", { "C64 F64 C3", NULL } },
	{ "many", { "C64 I64 C64 I64 C64 I64 C1", "I64 I64 I64", "C64", "C5", "I6", "C64 C64 Z64 C64", NULL } },
};
#define NSCEN (sizeof(scenarios) / sizeof(scenarios[0]))

static uint64_t run_once(const scenario_t *sc, unsigned W, unsigned Q, int *status_out)
{
	sqfs_block_processor_desc_t desc;
	sqfs_block_processor_t *proc = NULL;
	sqfs_inode_generic_t *inodes[12];
	sqfs_frag_table_t *tbl = sqfs_frag_table_create(0);
	sqfs_compressor_t *cmp = scomp_create();
	rwr_t *wr = calloc(1, sizeof(*wr));
	uint64_t h = 1469598103934665603ULL;
	int ret = 0, nf = 0, i;
	sqfs_u8 buf[BS];

	memset(inodes, 0, sizeof(inodes));
	sqfs_object_init(wr, rwr_destroy, NULL);
	wr->base.write_data_block = rwr_write;
	wr->base.get_block_count = rwr_count;
	wr->hash = h;

	memset(&desc, 0, sizeof(desc));
	desc.size = sizeof(desc);
	desc.max_block_size = BS;
	desc.num_workers = W;
	desc.max_backlog = Q;
	desc.cmp = cmp;
	desc.wr = (sqfs_block_writer_t *)wr;
	desc.tbl = tbl;

	ret = sqfs_block_processor_create_ex(&desc, &proc);
	if (ret)
		goto out;

	for (nf = 0; sc->files[nf] != NULL && ret == 0; ++nf) {
		const char *p = sc->files[nf];
		ret = sqfs_block_processor_begin_file(proc, &inodes[nf], NULL, 0);
		if (ret)
			break;
		while (*p && ret == 0) {
			char t = *p++;
			int len = atoi(p);
			while (*p && *p != ' ')
				++p;
			while (*p == ' ')
				++p;
			if (t == 'Z') {
				memset(buf, 0, sizeof(buf));
			} else {
				for (i = 0; i < len; ++i)
					buf[i] = (sqfs_u8)(t + (i ? (i * 7 + nf) : 0));
				buf[0] = t;
			}
			ret = sqfs_block_processor_append(proc, buf, len);
		}
		if (ret == 0)
			ret = sqfs_block_processor_end_file(proc);
	}
	if (ret == 0)
		ret = sqfs_block_processor_finish(proc);
out:
	if (ret == 0) {
		h = wr->hash;
		h = mix(h, wr->nblocks);
		for (i = 0; i < nf; ++i) {
			sqfs_u64 sz = 0, start = 0;
			sqfs_u32 fi = 0, fo = 0;
			size_t k, nb;
			if (inodes[i] == NULL)
				continue;
			sqfs_inode_get_file_size(inodes[i], &sz);
			sqfs_inode_get_file_block_start(inodes[i], &start);
			sqfs_inode_get_frag_location(inodes[i], &fi, &fo);
			nb = sqfs_inode_get_file_block_count(inodes[i]);
			h = mix(h, sz); h = mix(h, start); h = mix(h, fi); h = mix(h, fo); h = mix(h, nb);
			h = mix(h, inodes[i]->base.type);
			for (k = 0; k < nb; ++k)
				h = mix(h, inodes[i]->extra[k]);
			if (inodes[i]->base.type == SQFS_INODE_EXT_FILE)
				h = mix(h, inodes[i]->data.file_ext.sparse);
		}
		for (i = 0; i < (int)sqfs_frag_table_get_size(tbl); ++i) {
			sqfs_fragment_t f;
			sqfs_frag_table_lookup(tbl, i, &f);
			h = mix(h, f.start_offset); h = mix(h, f.size);
		}
	}
	*status_out = ret;
	if (proc)
		sqfs_drop(proc);
	for (i = 0; i < 12; ++i)
		free(inodes[i]);
	sqfs_drop(tbl);
	sqfs_drop(cmp);
	sqfs_drop(wr);
	return ret == 0 ? h : (uint64_t)(int64_t)ret;
}

static const scenario_t *find(const char *name)
{
	size_t i;
	for (i = 0; i < NSCEN; ++i)
		if (!strcmp(scenarios[i].name, name))
			return &scenarios[i];
	return NULL;
}

static int cmp_u64(const void *a, const void *b)
{
	uint64_t x = *(const uint64_t *)a, y = *(const uint64_t *)b;
	return x < y ? -1 : x > y;
}

int main(int argc, char **argv)
{
	int status = 0;
	if (argc >= 5 && !strcmp(argv[1], "ref")) {
		const scenario_t *sc = find(argv[2]);
		uint64_t h;
		if (!sc) return 2;
#ifdef SCHED
		vs_begin(NULL, 0, 0, 0, -1, 0);
#endif
		h = run_once(sc, atoi(argv[3]), atoi(argv[4]), &status);
#ifdef SCHED
		vs_end(NULL, NULL, NULL);
#endif
		printf("OUT scenario=%s W=%s Q=%s status=%d hash=%016llx\n", sc->name, argv[3], argv[4], status, (unsigned long long)h);
		return 0;
	}
#ifdef SCHED
	if (argc >= 7 && (!strcmp(argv[1], "dfs") || !strcmp(argv[1], "rand"))) {
		static int prefix[4096];
		int isdfs = !strcmp(argv[1], "dfs");
		long a2 = atol(argv[2]);
		unsigned long cap = strtoul(argv[3], NULL, 0), execs = 0, distinct = 0, sdistinct = 0, i;
		const scenario_t *sc = find(argv[4]);
		unsigned W = atoi(argv[5]), Q = atoi(argv[6]);
		size_t plen = 0, L;
		const int *d, *o;
		int complete = 0;
		uint64_t *hs, *ss;
		unsigned long n = isdfs ? cap : (unsigned long)a2;
		if (!sc) return 2;
		hs = calloc(n + 1, sizeof(*hs));
		ss = calloc(n + 1, sizeof(*ss));
		for (;;) {
			if (isdfs)
				vs_begin(prefix, plen, 0, 0, (int)a2, 0);
			else
				vs_begin(NULL, 0, 1, cap + execs, -1, 1);
			hs[execs] = run_once(sc, W, Q, &status);
			L = vs_end(&d, &o, NULL);
			ss[execs] = vs_schedule_hash();
			execs++;
			if (!isdfs) {
				if (execs >= n) break;
				continue;
			}
			if (L >= 4096) break;
			i = L;
			while (i > 0 && d[i - 1] + 1 >= o[i - 1]) i--;
			if (i == 0) { complete = 1; break; }
			memcpy(prefix, d, (i - 1) * sizeof(int));
			prefix[i - 1] = d[i - 1] + 1;
			plen = i;
			if (execs >= cap) break;
		}
		qsort(hs, execs, sizeof(*hs), cmp_u64);
		qsort(ss, execs, sizeof(*ss), cmp_u64);
		for (i = 0; i < execs; ++i) {
			if (i == 0 || hs[i] != hs[i - 1]) distinct++;
			if (i == 0 || ss[i] != ss[i - 1]) sdistinct++;
		}
		printf("OUTS scenario=%s W=%u Q=%u mode=%s execs=%lu schedules=%lu complete=%d results=%lu first=%016llx last=%016llx\n",
		       sc->name, W, Q, argv[1], execs, sdistinct, complete, distinct, (unsigned long long)hs[0], (unsigned long long)hs[execs - 1]);
		return 0;
	}
#endif
	fprintf(stderr, "usage\n");
	return 2;
}
