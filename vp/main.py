import sys, os, importlib, traceback


def main():
    args = sys.argv[1:]
    if not args:
        print("usage: check <ID> [--tier quick|thorough]")
        sys.exit(2)
    prop = args[0].upper()
    tier = os.environ.get("VERIF_TIER", "quick")
    replay = None
    i = 1
    while i < len(args):
        if args[i] == "--tier":
            tier = args[i + 1]
            i += 2
        elif args[i] == "--replay":
            replay = args[i + 1]
            i += 2
        else:
            i += 1
    try:
        mod = importlib.import_module("vp." + prop.lower())
    except ImportError:
        print("HARNESS-ERROR no check for", prop)
        traceback.print_exc()
        sys.exit(2)
    try:
        if replay and hasattr(mod, "replay"):
            rc = mod.replay(replay)
        else:
            rc = mod.main(tier)
    except SystemExit:
        raise
    except Exception:
        traceback.print_exc()
        print("HARNESS-ERROR property=%s exception in check" % prop)
        sys.exit(2)
    sys.exit(rc)


main()
