"""C06: unpacking any image writes only inside the chosen unpack directory."""
import os, stat, hashlib, traceback, shutil
from . import core, build, gentree, sqfsimg, views, sysaudit
from .gentree import Node

PROP = "C06"
HOSTILE_NAMES = [b".", b"..", b"...", b"a\0b", b"\0", b"a/b", b"/abs", b"../x", b"x/", b"../outside/created", b"./y", b"..\0", b"R", b"outside",
                 b"../../etc", b"//", b"a/../../outside/w", b"lnk/evil", b"lnk", b"dup", b"DUP", b"Dup"]


def make_victims(J):
    out = os.path.join(J, "outside")
    os.makedirs(os.path.join(out, "vdir"))
    for name, mode, uid in (("x", 0o600, 11), ("victim", 0o644, 12), ("created", 0o640, 13), ("vdir/inside", 0o604, 14), ("w", 0o666, 15)):
        p = os.path.join(out, name)
        with open(p, "wb") as f:
            f.write(b"victim data " + name.encode())
        os.chmod(p, mode)
        os.chown(p, uid, uid + 100)
        os.setxattr(p, b"user.victim", name.encode())
        os.utime(p, (1111111111, 1111111111))
    os.chmod(os.path.join(out, "vdir"), 0o711)
    os.utime(os.path.join(out, "vdir"), (1222222222, 1222222222))
    os.utime(out, (1333333333, 1333333333))
    os.symlink("x", os.path.join(out, "vlink"))


def snapshot(J):
    """Everything in the jail except the contents of R (R itself is recorded by name only)."""
    snap = {}
    for ent in sorted(os.listdir(J)):
        full = os.path.join(J, ent)
        if ent == "R":
            snap["R"] = "dir"
            continue
        s = views.snapshot_dir(full)
        for p, e in s.items():
            e.pop("dev_ino", None)
            e.pop("mtime", None)
            e.pop("blocks", None)
            snap[ent + "/" + p.decode("latin1")] = repr(sorted(e.items()))
    return snap


def gen_image(r, J):
    """Hostile image: returns (bytes, description, expected sane files {relative path: sha256})."""
    Jb = os.fsencode(J)
    t = {b"": Node("dir", 0o755)}
    raw = {}
    feats = set()
    targets = [b"../outside", b"../outside/x", Jb + b"/outside", Jb + b"/outside/victim", b"..", b".", b"/", b"../outside/vdir", b"outside", b"../R/../outside"]
    # ordinary content
    t[b"ok"] = Node("dir", 0o755)
    t[b"ok/file"] = Node("file", 0o644, data=[("bytes", b"fine")], uid=7, gid=8, mtime=1000, xattrs={b"user.k": b"v"})
    t[b"ok/sub"] = Node("dir", 0o700)
    t[b"ok/sub/deep"] = Node("file", 0o600, data=[("rand", 3, 5000)])
    n = r.choice([1, 1, 2, 4, 7])
    k = 0
    gap_pairs = []
    same_number = []
    for _ in range(n):
        kind = r.choice(["hostile-name", "symlink-then-dir", "symlink-then-file", "dup-files", "dup-dirs", "symlink-victim", "nested-hostile", "dev-fifo", "unsorted"])
        feats.add(kind)
        k += 1
        u = b"%02d" % k
        if kind == "hostile-name":
            nm = r.choice(HOSTILE_NAMES)
            typ = r.choice(["file", "dir", "slink", "fifo"])
            p = b"h" + u
            t[p] = Node(typ, 0o666, data=[("bytes", b"evil " + nm)], target=r.choice(targets), uid=66, gid=66)
            raw[p] = nm
            if typ == "dir":
                t[p + b"/payload"] = Node("file", 0o666, data=[("bytes", b"evil payload")])
        elif kind in ("symlink-then-dir", "symlink-then-file"):
            # two entries with the same name: a symlink and a directory / file
            nm = b"lnk" + u
            pre = b""
            if r.random() < 0.4:
                # the pair lives in a sub directory, stored with a basic or an extended directory inode
                pre = b"g" + u
                if r.random() < 0.5:
                    # ... below a directory whose only entry is that sub directory (a walk that treats "one entry" as "nothing to do")
                    t[b"w" + u] = Node("dir", 0o755)
                    pre = b"w" + u + b"/" + pre
                    feats.add("pair-below-single-entry-dir")
                t[pre] = Node("dir", 0o755, xattrs={b"user.g": u} if r.random() < 0.6 else {})
                t[pre + b"/between"] = Node("file", 0o644, data=[("bytes", b"between")])
                feats.add("nested-pair")
                pre += b"/"
            a, b_ = pre + b"s" + u + b"a", pre + b"s" + u + b"b"
            if r.random() < 0.5:
                a, b_ = b_, a      # which of the two comes first in a sorted listing
            gap_pairs.append((a, b_))
            if r.random() < 0.35:
                same_number.append((a, b_))      # both inode records claim the same inode number ("the same inode linked twice")
                feats.add("pair-same-inode-number")
            if r.random() < 0.4:
                # a name that differs from the pair's name only in case, stored between the two
                cv = pre + b"v" + u
                t[cv] = Node("file", 0o644, data=[("bytes", b"case variant")])
                raw[cv] = nm.upper() if nm.upper() != nm else nm.lower()
                feats.add("case-variant-between")
            t[a] = Node("slink", 0o777, target=r.choice(targets if not pre else [b"../" * pre.count(b"/") + x if not x.startswith(b"/") else x for x in targets]))
            raw[a] = nm
            if kind == "symlink-then-dir":
                t[b_] = Node("dir", 0o777)
                # (names that do not exist outside come first: creation of an existing name fails with EEXIST)
                t[b_ + b"/0fresh" + u] = Node("file", 0o666, data=[("bytes", b"created through symlink")])
                t[b_ + b"/0freshdir" + u] = Node("dir", 0o777)
                t[b_ + b"/victim"] = Node("file", 0o666, data=[("bytes", b"overwritten through symlink")])
                t[b_ + b"/x"] = Node("file", 0o666, data=[("bytes", b"overwritten x")])
                t[b_ + b"/created"] = Node("slink", 0o777, target=b"whatever")
            else:
                t[b_] = Node("file", 0o666, data=[("bytes", b"written through symlink")])
            raw[b_] = nm
        elif kind == "dup-files":
            for s in (b"a", b"b"):
                p = b"d" + u + s
                t[p] = Node("file", 0o644, data=[("bytes", b"dup " + s)])
                raw[p] = b"dup" + u
        elif kind == "dup-dirs":
            for s in (b"a", b"b"):
                p = b"e" + u + s
                t[p] = Node("dir", 0o755)
                t[p + b"/f" + s] = Node("file", 0o644, data=[("bytes", s)])
                raw[p] = b"dd" + u
        elif kind == "symlink-victim":
            t[b"v" + u] = Node("slink", 0o777, target=r.choice(targets), uid=99, gid=99, mtime=5, xattrs={b"trusted.t": b"1"})
        elif kind == "nested-hostile":
            t[b"n" + u] = Node("dir", 0o755)
            p = b"n" + u + b"/inner"
            t[p] = Node(r.choice(["file", "dir"]), 0o666, data=[("bytes", b"nested evil")])
            raw[p] = r.choice(HOSTILE_NAMES)
        elif kind == "dev-fifo":
            t[b"c" + u] = Node("cdev", 0o666, dev=(1, 3))
            t[b"p" + u] = Node("fifo", 0o666)
            t[b"k" + u] = Node("sock", 0o666)
    shuffle = None
    if "unsorted" in feats or r.random() < 0.3:
        rr = core.rng_for(PROP, "shuffle", r.random())
        gap = r.random() < 0.5
        def shuffle(p, ents):
            ents = list(ents)
            rr.shuffle(ents)
            if gap:
                # symlink first, same-named directory / file last, everything else in between
                for a, b_ in gap_pairs:
                    if a in ents and b_ in ents and len(ents) > 2:
                        ents.remove(a); ents.remove(b_)
                        ents = [a] + ents + [b_]
            return ents
    img, fmap, info = sqfsimg.build_image(t, raw_names=raw, entry_shuffle=shuffle, exportable=False)
    f = {n: (o, sz) for n, o, sz in fmap.fields}
    for a, b_ in same_number:
        k = "inode[%s].number" % sqfsimg._nm(b_)
        if k in f and a in info["number"]:
            img = sqfsimg.patch(img, f[k][0], f[k][1], info["number"][a])
    return img, sorted(feats), t, raw


OPTION_SETS = [[], ["-C"], ["-O"], ["-T"], ["-X"], ["-C", "-O", "-T", "-X"], ["-Z"], ["-q"], ["-E", "-D", "-S", "-F", "-L"], ["-C", "-O", "-T", "-X", "-Z", "-q"]]


def run_case(arg):
    idx, tier = arg
    oc = core.Outcome("img-%d" % idx)
    try:
        B = build.build("asan")
        r = core.rng_for(PROP, "img", idx)
        with core.Scratch("c06") as J:
            make_victims(J)
            img, feats, tree, raw = gen_image(r, J)
            ip = os.path.join(J, "image.sqfs")   # the image itself lives in the jail too (must not change)
            with open(ip, "wb") as f:
                f.write(img)
            os.utime(ip, (1444444444, 1444444444))
            oc.features = tuple(feats)
            for ff in feats:
                oc.inc("feature:" + ff)
            nsets = 4 if tier == "quick" else 8
            for oi in range(nsets):
                opts = OPTION_SETS[(idx + oi * 3) % len(OPTION_SETS)]
                upath = r.choice(["/", "/", "/", "/", "/", "/ok", "/ok/file", "/h01", "/s01a", "/n01"])
                R = os.path.join(J, "R")
                shutil.rmtree(R, ignore_errors=True)
                os.makedirs(R)
                before = snapshot(J)
                res = core.run_tool([B["rdsquashfs"], "-u", upath, "-p", R] + opts + [ip], timeout=120, cwd=J)
                oc.inc("unpack_runs")
                after = snapshot(J)
                if res.san:
                    oc.violate(res.san, "rdsquashfs -u %s %s" % (upath, " ".join(opts)), {"image.sqfs": img, "stderr.txt": res.err})
                if res.hang:
                    oc.violate("rdsquashfs:hang:unpack", "", {"image.sqfs": img})
                oc.inc("snapshot_entries", len(before))
                if before != after:
                    diff = [(k, before.get(k), after.get(k)) for k in sorted(set(before) | set(after)) if before.get(k) != after.get(k)][:3]
                    changed = diff[0][0]
                    cls = "created" if diff[0][1] is None else "removed" if diff[0][2] is None else "modified"
                    oc.violate("confinement:outside-%s:%s" % (cls, "+".join(feats)[:60]),
                               "unpack %s %s (exit %s) changed %r: %r -> %r" % (upath, opts, res.rc, changed, diff[0][1], diff[0][2]),
                               {"image.sqfs": img, "stderr.txt": res.err})
                else:
                    oc.inc("unchanged_outside")
                if b"skipping" in res.err:
                    oc.inc("skip_messages")
                if b"more than once" in res.err:
                    oc.inc("duplicate_rejections")
                if res.rc == 0:
                    oc.inc("exit0")
                    if upath == "/":
                        # every sanely named regular file must be there with the right content
                        for p in (b"ok/file", b"ok/sub/deep"):
                            full = os.path.join(os.fsencode(R), p)
                            want = gentree.spec_sha(tree[p].data)
                            if not os.path.isfile(full) or core.sha_file(full) != want:
                                oc.violate("unpack:sane-entry-missing-or-wrong", "exit 0 but %r is missing or differs (opts %s)" % (p, opts), {"image.sqfs": img, "stderr.txt": res.err})
                        # skipped entries must be named
                        skipped = [nm for p, nm in raw.items() if b"/" not in p and (nm in (b".", b"..") or b"/" in nm)]
                        # (entries excluded by a type filter such as -L are not "skipped because of their name")
                        # ("reported" = something is said on stderr; the wording is the tool's business)
                        if skipped and not res.err.strip() and not set(opts) & {"-D", "-S", "-F", "-L", "-E"}:
                            oc.violate("unpack:skipped-entry-not-reported", "hostile names %r skipped without any message" % skipped[:3], {"image.sqfs": img, "stderr.txt": res.err})
                else:
                    oc.inc("exit_nonzero")
                shutil.rmtree(R, ignore_errors=True)
                if oi == 0:
                    # the same unpack once more under strace (uninstrumented build): every path given to a modifying system call
                    # after the chdir into R must stay lexically inside R and must not lead through or follow a symlink made by this run
                    os.makedirs(R)
                    Bp = build.build("plain")
                    rc2, err2, findings, st = sysaudit.audit([Bp["rdsquashfs"], "-u", upath, "-p", R] + opts + [ip], J, R)
                    oc.inc("audited_runs")
                    oc.inc("audited_modifying_calls", st["modifying_calls"])
                    oc.inc("audited_symlinks", st["symlinks_created"])
                    oc.inc("audited_chdir", st["chdir_seen"])
                    for rule, detail in findings[:3]:
                        if rule in ("audit:no-trace", "audit:unknown-dirfd"):
                            oc.inconclusive.append("%s %s" % (rule, detail))
                        else:
                            oc.violate("confinement:%s" % rule, "unpack %s %s: %s" % (upath, opts, detail), {"image.sqfs": img, "stderr.txt": err2})
                    shutil.rmtree(R, ignore_errors=True)
            oc.sample = {"image": idx, "features": feats, "hostile_names": [repr(v) for v in list(raw.values())[:6]]}
    except Exception:
        oc.inconclusive.append("harness exception: %s" % traceback.format_exc()[-800:])
    return oc


def main(tier):
    rep = core.Report(PROP, tier, "exploration",
                      "hostile images from the independent writer: directory tables carrying arbitrary name bytes ('.', '..', NUL, '/', absolute, '../x', trailing '/'), duplicate names combining "
                      "symlink+directory, symlink+file, file+file, dir+dir, unsorted entries, symlinks to victims (relative, absolute, '..', '.', '/'), nested hostile names, devices; x option sets "
                      "(-C -O -T -X -Z -q -E -D -S -F -L) x unpack paths; a jail J/{R, outside/..., image} is snapshotted (type, mode, owner, size, mtime_ns, xattrs, sha256 / link target) before and after "
                      "rdsquashfs -u: everything outside R must be identical; one run per image is repeated under strace and every path argument of a modifying system call is audited "
                      "(relative, no '..', not through / not following a symlink created by the run; failed attempts count); distinct = hostile feature sets")
    build.build("asan")
    build.build("plain")
    n = 150 if tier == "quick" else 3000
    for oc in core.pmap(run_case, [(i, tier) for i in range(n)]):
        rep.add(oc)
    rep.evaluations = rep.counters.get("unpack_runs", 0)
    rep.required_nonzero = ["unpack_runs", "unchanged_outside", "exit0", "exit_nonzero", "audited_runs", "audited_modifying_calls", "audited_symlinks", "audited_chdir",
                            "feature:symlink-then-dir", "feature:symlink-then-file", "feature:hostile-name"]
    rep.assumptions = ["the jail lives on tmpfs (/dev/shm) or /var/tmp; checks run as root, so permission errors do not mask escapes"]
    return rep.finish()
