"""C04: tar <-> SquashFS conversion preserves the archive; byte-exact fixpoint on the second round trip."""
import os, subprocess, traceback, hashlib
from . import core, build, gentree, sqfsimg, tarmodel, views
from .gentree import Node

PROP = "C04"
U32 = 0xFFFFFFFF


def gen_case(r, idx):
    dialect = tarmodel.DIALECTS[idx % 5]
    bs = r.choice([4096, 8192, 131072])
    tree, feats = gentree.gen_tree(r, bs=bs, max_entries=40, want=("xattr",) if dialect == "pax" else ())
    # tar specific boundaries: name / link lengths around 100, 155, 256; sizes around 512
    dirs = [p for p, n in tree.items() if n.type == "dir"]
    for L in r.sample([99, 100, 101, 154, 155, 156, 200, 255], 3):
        parent = r.choice(dirs)
        room = L - (len(parent) + 1 if parent else 0)
        if 0 < room <= 255:
            nm = (b"n%d-" % L + b"x" * 300)[:room]
            p = parent + b"/" + nm if parent else nm
            tree[p] = Node("file", 0o644, data=[("rand", L, r.choice([0, 1, 511, 512, 513, 1024]))])
    for L in r.sample([99, 100, 101, 255, 1000], 2):
        tree[b"sl%d" % L] = Node("slink", 0o777, target=(b"t/" * 600)[:L])
    # numeric boundaries
    tree[b"bigids"] = Node("file", 0o600, uid=r.choice([2097151, 2097152, U32]), gid=r.choice([2097152, 0x7FFFFFFF]), data=[("bytes", b"x")],
                           mtime=r.choice([-1, -315622800, 8589934591, 8589934592, 0xFFFFFFFF, 0x100000000]))
    # xattr value lengths around the points where the decimal length prefix of the PAX record sqfs2tar writes gains a digit
    if dialect == "pax":
        if r.random() < 0.3:
            # the largest value Linux allows for one attribute: its PAX record is longer than 64 KiB
            tree[b"xmax"] = Node("file", 0o644, data=[("bytes", b"m")], xattrs={b"user.max": bytes(range(256)) * 256, b"user.other": b"o"})
        for L in r.sample([74, 75, 76, 973, 974, 975, 9972, 9973, 9974], 3):
            tree[b"xlen%d" % L] = Node("file", 0o644, data=[("bytes", b"x")], xattrs={b"user.ka": b"v" * L, b"user.kb": b"w" * L})
    # sparse files with random hole layouts
    for k in range(2):
        segs = []
        for _ in range(r.choice([1, 3, 6])):
            segs.append(("zero", r.choice([512, 1024, 4096, 5000, 10 * 512])) if r.random() < 0.5 else ("rand", r.getrandbits(30), r.choice([1, 512, 700, 2048])))
        if r.random() < 0.5:
            segs.append(("zero", r.choice([512, 3000])))
        tree[b"sparse%d" % k] = Node("file", 0o644, data=segs)
    # a sparse file whose path does not fit the 100 byte name field (GNU tar then adds a path record behind GNU.sparse.name)
    tree[b"d" * 60] = Node("dir", 0o755)
    tree[b"d" * 60 + b"/" + b"e" * 70] = Node("file", 0o644, data=[("rand", 77, 700), ("zero", 4096), ("rand", 78, 100)])
    # sparse file with a map that needs several 512 byte map blocks (GNU 1.0) / extension headers (old GNU)
    if r.random() < 0.5:
        segs = []
        for k in range(r.choice([30, 60, 130])):
            segs.append(("rand", r.getrandbits(30), r.choice([1, 100, 512])))
            segs.append(("zero", 512 * r.choice([1, 2, 3])))
        tree[b"sparse-many-regions"] = Node("file", 0o644, data=segs)
        tree[b"sparse-many-regions.d"] = Node("dir", 0o700)
        tree[b"sparse-many-regions.l"] = Node("slink", 0o777, target=b"sparse-many-regions")
        tree[b"sparse-many-regions.z"] = Node("file", 0o600, data=[("bytes", b"after the sparse file")])
    # a sub directory with siblings whose names are string prefixes of its path (for sqfs2tar --subdir)
    for q in [q for q in tree if q.split(b"/")[0] in (b"s", b"se", b"sel", b"other")]:
        del tree[q]        # (a generated directory called "s" must not end up below the file "s")
    for q in [q for q, n in tree.items() if n.link_to is not None and n.link_to not in tree]:
        del tree[q]
    tree[b"sel"] = Node("dir", 0o755)
    tree[b"sel/ect"] = Node("dir", 0o750)
    tree[b"sel/ect/inner"] = Node("file", 0o644, data=[("bytes", b"inner")])
    tree[b"sel/ect/sub"] = Node("dir", 0o755)
    tree[b"sel/ect/sub/deep"] = Node("slink", 0o777, target=b"../inner")
    # for tar2sqfs --root-becomes sel: links below the new root with targets inside, outside and shaped like the root path
    tree[b"sel/hl-inner"] = Node("file", link_to=b"sel/ect/inner")
    tree[b"sel/sel"] = Node("dir", 0o755)
    tree[b"sel/sel/ect"] = Node("dir", 0o755)
    tree[b"sel/sel/ect/inner"] = Node("file", 0o644, data=[("bytes", b"decoy")])
    for nm, tg in ((b"l_abs", b"/abs/target"), (b"l_pref", b"sel/ect/inner"), (b"l_abspref", b"/sel/ect/inner"), (b"l_dot", b"./x/../y"), (b"l_dbl", b"a//b"), (b"l_up", b"../sel/e"),
                   # the root name as a mere string prefix of the first component, and the root name alone
                   (b"l_str", b"select/x"), (b"l_eq", b"sel"), (b"l_absstr", b"/selfie")):
        tree[b"sel/" + nm] = Node("slink", 0o777, target=tg)
    for nm in (b"s", b"se", b"sel/e", b"sel/ec", b"sel/ect2", b"other"):
        tree[nm] = Node("file", 0o644, data=[("bytes", nm)]) if nm != b"other" else Node("dir", 0o755)
    tree[b"other/x"] = Node("fifo", 0o600)
    # hard link to a long name
    files = [p for p, n in tree.items() if n.type == "file" and n.link_to is None and p]
    if files:
        tree[b"hl-to-long"] = Node("file", link_to=max(files, key=len))
    sparse = r.choice(tarmodel.SPARSE_FORMATS) if dialect in ("gnu", "oldgnu", "pax") else None
    if sparse in ("0.0", "0.1", "1.0") and dialect != "pax":
        sparse = "old"
    if sparse == "old" and dialect == "pax":
        sparse = r.choice(["0.0", "0.1", "1.0"])
    tree = tarmodel.representable(tree, dialect, sparse)
    for p, n in tree.items():
        if n.uid == U32 and dialect in ("v7", "ustar"):
            n.uid = 5
        n.mtime = n.mtime if n.mtime is not None else 0
    layout = {"dialect": dialect, "sparse": sparse, "xattr_style": r.choice(["schily", "libarchive"]),
              "name_prefix": r.choice([b"./", b"./", b"", b"/"]), "numeric": r.choice(["auto", "pax", "auto"]) if dialect == "pax" else (r.choice(["auto", "b256"]) if dialect in ("gnu", "oldgnu") and sparse == "old" else "auto"),
              "links_first": r.random() < 0.3, "pad_to": r.choice([None, 10240]), "omit_dirs": []}
    # implicit parents: omit a directory entry that has children
    cand = [p for p in tree if p and tree[p].type == "dir" and any(q.startswith(p + b"/") for q in tree)]
    if cand and r.random() < 0.4:
        layout["omit_dirs"] = [r.choice(cand)]
    opts = r.choice([[], [], ["-k"], ["-x"], ["-T"], ["-e"]])
    return tree, layout, opts, bs, feats


def expected_tree(tree, layout, opts):
    """Documented effect of tar2sqfs on the archive written from `tree` with `layout`."""
    exp = {}
    keep_time = "-k" not in opts
    keep_x = "-x" not in opts
    root_from_entry = layout["name_prefix"] in (b"./", b"") and layout["dialect"] != "v7"
    for p, n in tree.items():
        src = tree[n.link_to] if n.link_to is not None else n
        e = {"type": src.type, "mode": src.mode & 0o7777, "uid": src.uid, "gid": src.gid,
             "mtime": views.clamp_time(src.mtime) if keep_time else 0,
             "xattrs": sorted(src.xattrs.items()) if keep_x else []}
        if src.type == "slink":
            e["mode"] = 0o777
            e["target"] = src.target
        if src.type == "file":
            e["size"] = gentree.spec_len(src.data or [])
            e["sha256"] = gentree.spec_sha(src.data or [])
        if src.type in ("bdev", "cdev"):
            e["devno"] = gentree.devno(*src.dev)
        if p == b"" and not root_from_entry or p in layout["omit_dirs"]:
            e.update({"mode": 0o755, "uid": 0, "gid": 0, "mtime": 0, "xattrs": []})
        e["group"] = n.link_to if n.link_to is not None else p
        exp[p] = e
    groups = {}
    for p, e in exp.items():
        groups.setdefault(e["group"], []).append(p)
    for p, e in exp.items():
        if e["type"] != "dir":
            e["nlink"] = len(groups[e["group"]])
    return exp


def img_model(path, oc, tag):
    data = open(path, "rb").read()
    im = sqfsimg.parse(data)
    for rule, where, detail in im.problems:
        oc.violate("c03:" + rule, "%s: %s %s" % (tag, where, detail))
    return im, sqfsimg.tree_model(im)


def run_case(arg):
    idx, tier = arg
    oc = core.Outcome("arch-%d" % idx)
    try:
        B = build.build("asan")
        r = core.rng_for(PROP, "case", idx)
        tree, layout, opts, bs, feats = gen_case(r, idx)
        try:
            tar, notes = tarmodel.write_tree(tree, layout["dialect"], layout["sparse"], layout["xattr_style"], layout["name_prefix"], layout["numeric"],
                                             omit_dirs=layout["omit_dirs"], links_first=layout["links_first"], r=r, pad_to=layout["pad_to"])
        except (ValueError, OverflowError) as e:
            oc.inconclusive.append("generator could not express the tree in %s: %s" % (layout["dialect"], e))
            return oc
        oc.features = (layout["dialect"], layout["sparse"], layout["name_prefix"], tuple(sorted(notes)), tuple(opts))
        for nn in notes:
            oc.inc("feature:" + nn)
        oc.inc("dialect:" + layout["dialect"])
        with core.Scratch("c04") as work:
            tf = os.path.join(work, "a.tar")
            with open(tf, "wb") as f:
                f.write(tar)
            # acceptance of our own archive by GNU tar: sanity check of the generator, not of the tools
            gt = subprocess.run(["/usr/bin/tar", "-tf", tf], stdout=subprocess.DEVNULL, stderr=subprocess.PIPE)
            if gt.returncode != 0:
                oc.notes.append("GNU tar rejects generated %s archive: %s" % (layout["dialect"], gt.stderr[-100:]))
            i1 = os.path.join(work, "i1.sqfs")
            base = ["-c", r.choice(["gzip", "xz", "zstd", "lz4"]), "-b", str(bs), "-q"]
            res = core.run_tool([B["tar2sqfs"]] + base + opts + [i1], stdin_file=tf, timeout=300)
            oc.sample = {"case": idx, "layout": {k: (v.decode("latin1") if isinstance(v, bytes) else v) for k, v in layout.items()}, "opts": opts, "entries": len(tree),
                         "tar_bytes": len(tar), "exit": res.rc, "notes": sorted(notes)}
            if res.san:
                oc.violate(res.san, "tar2sqfs", {"stderr.txt": res.err, "a.tar": tar[:1 << 20]})
                return oc
            if res.hang or res.rc != 0:
                oc.violate("tar2sqfs:rejects-valid-archive:%s" % layout["dialect"], "rc=%s %s" % (res.rc, res.err[-300:]), {"a.tar": tar[:1 << 20]})
                return oc
            im1, m1 = img_model(i1, oc, "I1")
            exp = expected_tree(tree, layout, opts)
            views.compare_models(exp, m1, oc, "tar2sqfs", keyprefix="tar")
            oc.inc("members_compared", len(exp))
            # ---- image -> tar
            res = core.run_tool([B["sqfs2tar"], i1], timeout=300)
            if res.san:
                oc.violate(res.san, "sqfs2tar", {"stderr.txt": res.err})
                return oc
            if res.rc != 0:
                oc.violate("sqfs2tar:fails", "rc=%s %s" % (res.rc, res.err[-300:]))
                return oc
            t1 = res.out
            t1f = os.path.join(work, "t1.tar")
            with open(t1f, "wb") as f:
                f.write(t1)
            try:
                tm, order = tarmodel.read_tar(t1)
            except Exception as e:
                oc.violate("sqfs2tar:python-tarfile-rejects", repr(e)[:300], {"t1.tar": t1[:1 << 20]})
                return oc
            gt = subprocess.run(["/usr/bin/tar", "--numeric-owner", "-tvf", t1f], stdout=subprocess.PIPE, stderr=subprocess.PIPE)
            if gt.returncode != 0:
                oc.violate("sqfs2tar:gnu-tar-rejects", gt.stderr[-300:].decode("latin1"), {"t1.tar": t1[:1 << 20]})
            else:
                oc.inc("gnu_tar_accepts")
                if len(gt.stdout.rstrip(b"\n").split(b"\n")) < len([p for p in m1 if p]):
                    # names with newlines make the line count larger, never smaller
                    oc.violate("sqfs2tar:gnu-tar-member-count", "%d lines for %d entries" % (len(gt.stdout.split(b"\n")), len(m1) - 1))
            # compare tarfile's view with the image's tree (root is not in the archive)
            te = {}
            first_of_inode = {}
            for p in order:
                e = tm[p]
                if e["type"] == "hardlink":
                    tgt = e["linkname"].rstrip(b"/")
                    if tgt not in te:
                        oc.violate("sqfs2tar:hardlink-target-missing", "%r -> %r" % (p, tgt))
                        continue
                    e2 = dict(te[tgt])
                    e2["group"] = te[tgt]["group"]
                    te[p] = e2
                else:
                    e["group"] = p
                    te[p] = e
            te[b""] = {"type": "dir"}
            em = {}
            inos = {}
            for p, a in m1.items():
                e = dict(a)
                if p == b"":
                    e = {"type": "dir"}
                e.pop("nlink", None)
                inos.setdefault(a["ino"], []).append(p)
                em[p] = e
            for p, e in em.items():
                if p:
                    e["group"] = sorted(inos[m1[p]["ino"]], key=lambda q: order.index(q) if q in order else 1 << 30)[0]
                else:
                    e["group"] = b""
                e.pop("ino", None)
            for p in te:
                te[p].pop("nlink", None)
                te[p].pop("xattr_order", None)
                te[p].pop("linkname", None)
            views.compare_models(em, te, oc, "sqfs2tar", fields=("type", "mode", "uid", "gid", "mtime", "target", "devno", "size", "sha256", "xattrs", "group"),
                                 check_links=False, keyprefix="tar")
            # ---- back to an image, twice
            i2, i3 = os.path.join(work, "i2.sqfs"), os.path.join(work, "i3.sqfs")
            res = core.run_tool([B["tar2sqfs"]] + base + [i2], stdin_file=t1f, timeout=300)
            if res.rc != 0 or res.san:
                oc.violate(res.san or "tar2sqfs:rejects-sqfs2tar-output", "rc=%s %s" % (res.rc, res.err[-300:]), {"t1.tar": t1[:1 << 20]})
                return oc
            im2, m2 = img_model(i2, oc, "I2")
            # semantic equality I1 ~ I2 (root attributes are lost without --root-becomes, as documented)
            a, b = dict(m1), dict(m2)
            a.pop(b""); b.pop(b"")
            if set(a) != set(b):
                oc.violate("roundtrip:paths", "missing %r extra %r" % (sorted(set(a) - set(b))[:3], sorted(set(b) - set(a))[:3]))
            else:
                for p in a:
                    x, y = dict(a[p]), dict(b[p])
                    x.pop("ino"); y.pop("ino")
                    if x["type"] == "dir":
                        x.pop("nlink", None); y.pop("nlink", None)
                    if x != y:
                        oc.violate("roundtrip:%s" % next(k for k in x if x[k] != y.get(k)), "%r: %r -> %r" % (p, x, y))
                        break
                g1 = sorted(sorted(v) for v in _groups(m1).values())
                g2 = sorted(sorted(v) for v in _groups(m2).values())
                if g1 != g2:
                    oc.violate("roundtrip:hardlink-groups", "%r vs %r" % (g1[:3], g2[:3]))
            res = core.run_tool([B["sqfs2tar"], i2], timeout=300)
            t2 = res.out
            t2f = os.path.join(work, "t2.tar")
            with open(t2f, "wb") as f:
                f.write(t2)
            res = core.run_tool([B["tar2sqfs"]] + base + [i3], stdin_file=t2f, timeout=300)
            if res.rc != 0:
                oc.violate("tar2sqfs:rejects-sqfs2tar-output", "second round rc=%s %s" % (res.rc, res.err[-300:]))
                return oc
            s2, s3 = core.sha_file(i2), core.sha_file(i3)
            oc.inc("fixpoints_checked")
            if s2 != s3 or hashlib.sha256(t1).digest() != hashlib.sha256(t2).digest():
                multi = any(len(e.get("xattrs") or []) >= 2 for e in m2.values())
                im3, m3 = img_model(i3, oc, "I3")
                same_sem = all({k: v for k, v in m2[p].items()} == {k: v for k, v in m3.get(p, {}).items()} for p in m2)
                raw2 = {p: [k for k, _ in (ino.xattrs or [])] for p, ino in im2.tree.items()}
                raw3 = {p: [k for k, _ in (ino.xattrs or [])] for p, ino in im3.tree.items()}
                if multi and same_sem and raw2 != raw3:
                    oc.violate("fixpoint:xattr-order-flips", "second round trip differs only in the stored order of the xattrs of an entry with several xattrs (I2 != I3, T1 %s T2)" % ("==" if t1 == t2 else "!="))
                else:
                    oc.violate("fixpoint:second-roundtrip-not-byte-identical", "sha(I2)=%s sha(I3)=%s T1==T2: %s" % (s2[:12], s3[:12], t1 == t2))
            else:
                oc.inc("fixpoints_reached")
            # ---- option variants on the sqfs2tar side
            for sopt in (["-r", "."], ["-X"], ["-L"], ["-d", "sel/ect", "-k"], ["-d", "sel/ect", "-d", "other"], ["-d", "sel/ect"]):
                res = core.run_tool([B["sqfs2tar"]] + sopt + [i1], timeout=300)
                oc.inc("sqfs2tar_option_runs")
                if res.san or res.rc != 0:
                    oc.violate(res.san or "sqfs2tar:fails:%s" % sopt[0], "rc=%s %s" % (res.rc, res.err[-200:]))
                    continue
                try:
                    tmo, oo = tarmodel.read_tar(res.out)
                except Exception as e:
                    oc.violate("sqfs2tar:python-tarfile-rejects:%s" % sopt[0], repr(e)[:200])
                    continue
                if sopt[0] == "-d" and b"sel/ect" in m1:
                    under = lambda q, d: q == d or q.startswith(d + b"/")
                    if sopt == ["-d", "sel/ect"]:
                        want = set(q[len(b"sel/ect/"):] for q in m1 if q.startswith(b"sel/ect/"))
                    elif "-k" in sopt:
                        want = set(q for q in m1 if under(q, b"sel/ect")) | {b"sel"}
                    else:
                        want = set(q for q in m1 if under(q, b"sel/ect") or under(q, b"other")) | {b"sel"}
                    if set(tmo) != want:
                        oc.violate("sqfs2tar:subdir:%s:paths" % ("keep-as-dir" if "-k" in sopt else "multi" if len(sopt) == 4 else "single"),
                                   "unexpected %r missing %r" % (sorted(set(tmo) - want)[:4], sorted(want - set(tmo))[:4]))
                    else:
                        oc.inc("subdir_variants_ok")
                elif sopt[0] == "-d":
                    pass
                elif sopt[0] == "-r":
                    names = set(p[2:] if p.startswith(b"./") else (b"" if p == b"." else p) for p in tmo)
                    if names != set(m1):
                        oc.violate("sqfs2tar:root-becomes:paths", "%r" % sorted(names ^ set(m1))[:4])
                    else:
                        root = tmo.get(b".")
                        if root and (root["mode"], root["uid"], root["gid"]) != (m1[b""]["mode"], m1[b""]["uid"], m1[b""]["gid"]):
                            oc.violate("sqfs2tar:root-becomes:root-attributes", "%r vs %r" % (root, m1[b""]))
                elif sopt[0] == "-X":
                    if any(e["xattrs"] for e in tmo.values()):
                        oc.violate("sqfs2tar:no-xattr:has-xattrs", "")
                    if set(tmo) != set(p for p in m1 if p):
                        oc.violate("sqfs2tar:no-xattr:paths", "")
                elif sopt[0] == "-L":
                    if any(e["type"] == "hardlink" for e in tmo.values()):
                        oc.violate("sqfs2tar:no-hard-links:has-links", "")
                    for p, e in tmo.items():
                        if e["type"] == "file" and e["sha256"] != m1[p]["sha256"]:
                            oc.violate("sqfs2tar:no-hard-links:content", repr(p))
            # ---- tar2sqfs --root-becomes: "the specified directory becomes the root; only its children are packed and its attributes are
            # stored in the root inode"; "link targets are adjusted if they are prefixed by the root path; with -S symlinks are left untouched
            # and only hard links are changed"
            if b"sel" in m1 and m1[b"sel"]["type"] == "dir":
                for ropt in (["-r", "sel"], ["-r", "sel", "-S"]):
                    ir = os.path.join(work, "ir.sqfs")
                    if os.path.exists(ir):
                        os.unlink(ir)
                    res = core.run_tool([B["tar2sqfs"]] + base + ropt + [ir], stdin_file=tf, timeout=300)
                    oc.inc("tar2sqfs_root_becomes_runs")
                    tag = "root-becomes%s" % ("-S" if "-S" in ropt else "")
                    if res.san or res.rc != 0:
                        oc.violate(res.san or "tar2sqfs:%s:fails" % tag, "rc=%s %s" % (res.rc, res.err[-200:]), {"a.tar": tar[:1 << 20]})
                        continue
                    mr = sqfsimg.tree_model(sqfsimg.parse(open(ir, "rb").read()))
                    want = {}
                    for q, e in m1.items():
                        if q == b"sel":
                            k = b""
                        elif q.startswith(b"sel/"):
                            k = q[4:]
                        else:
                            continue
                        e = dict(e)
                        if e["type"] == "slink" and "-S" not in ropt:
                            c = _canon(e["target"])
                            if c is not None and c.startswith(b"sel/"):
                                e["target"] = c[3:]
                        want[k] = e
                    if set(want) != set(mr):
                        oc.violate("tar2sqfs:%s:paths" % tag, "missing %r extra %r" % (sorted(set(want) - set(mr))[:3], sorted(set(mr) - set(want))[:3]), {"a.tar": tar[:1 << 20]})
                        continue
                    for k in want:
                        fields = ("type", "mode", "uid", "gid") if k == b"" else ("type", "mode", "uid", "gid", "target", "devno", "size", "sha256", "xattrs")
                        bad = [f for f in fields if want[k].get(f) != mr[k].get(f)]
                        if bad:
                            oc.violate("tar2sqfs:%s:%s" % (tag, bad[0]), "%r: expected %r, image has %r" % (k, want[k].get(bad[0]), mr[k].get(bad[0])), {"a.tar": tar[:1 << 20]})
                            break
                    else:
                        gw = sorted(sorted(q[4:] for q in v if q.startswith(b"sel/")) for v in _groups(m1).values())
                        gw = [g for g in gw if g]
                        gr = sorted(sorted(v) for v in _groups(mr).values() if v != [b""])
                        if gw != gr:
                            oc.violate("tar2sqfs:%s:hardlink-groups" % tag, "%r vs %r" % ([g for g in gw if len(g) > 1][:3], [g for g in gr if len(g) > 1][:3]), {"a.tar": tar[:1 << 20]})
                        else:
                            oc.inc("root_becomes_ok")
    except Exception:
        oc.inconclusive.append("harness exception: %s" % traceback.format_exc()[-900:])
    return oc


def socket_case(arg):
    """Images with socket inodes (which tar cannot express) from the independent writer: sqfs2tar must skip exactly the sockets, say so,
    and every other entry must come out with its own name, attributes and xattrs."""
    idx, tier = arg
    oc = core.Outcome("sock-%d" % idx)
    try:
        B = build.build("asan")
        r = core.rng_for(PROP, "sock", idx)
        long_dir = b"d" * r.choice([60, 99, 100, 120])
        t = {b"": Node("dir", 0o755), b"a": Node("file", 0o644, data=[("bytes", b"first")]), long_dir: Node("dir", 0o755),
             b"plain.sock": Node("sock", 0o600), b"plain.sock.after": Node("file", 0o644, data=[("bytes", b"after plain")]),
             b"plain.sock.second-name": Node("sock", link_to=b"plain.sock"), b"zz-second-name-of-x": Node("sock", link_to=b"x.sock"),
             b"x.sock": Node("sock", 0o666, xattrs={b"user.onsocket": b"1", b"user.second": b"2"}),
             b"x.sock.after": Node("slink", 0o777, target=b"a"),
             long_dir + b"/" + b"s" * 50 + b".sock": Node("sock", 0o644),
             long_dir + b"/" + b"t-after": Node("file", 0o644, data=[("bytes", b"after long")], xattrs={b"user.mine": b"yes"} if idx % 2 else {}),
             long_dir + b"/" + b"u-fifo": Node("fifo", 0o600),
             b"zz-last.sock": Node("sock", 0o600, xattrs={b"user.tail": b"x" * 80})}
        if idx % 3 == 0:
            t[b"zz-last.sock.after"] = Node("file", 0o644, data=[("bytes", b"last")])
        img, fmap, info = sqfsimg.build_image(t)
        oc.features = ("sockets", len(long_dir), idx % 2, idx % 3)
        with core.Scratch("c04s") as work:
            ip = os.path.join(work, "i.sqfs")
            with open(ip, "wb") as f:
                f.write(img)
            for sopt in ([], ["-r", "root"], ["-X"]):
                res = core.run_tool([B["sqfs2tar"]] + sopt + [ip], timeout=120)
                oc.inc("socket_image_runs")
                if res.san or res.rc != 0:
                    oc.violate(res.san or "sqfs2tar:sockets:fails", "rc=%s %s" % (res.rc, res.err[-200:]), {"image.sqfs": img})
                    continue
                try:
                    tmo, order = tarmodel.read_tar(res.out)
                except Exception as e:
                    oc.violate("sqfs2tar:sockets:python-tarfile-rejects", repr(e)[:200], {"image.sqfs": img})
                    continue
                pre = b"root/" if sopt[:1] == ["-r"] else b""
                want = {pre + q: n for q, n in t.items() if q and (t[n.link_to] if n.link_to is not None else n).type != "sock"}
                got = {q: e for q, e in tmo.items() if q not in (b"root", b".")}
                if set(want) != set(got):
                    oc.violate("sqfs2tar:sockets:paths", "opts %s: missing %r unexpected %r" % (sopt, sorted(set(want) - set(got))[:3], sorted(set(got) - set(want))[:3]), {"image.sqfs": img})
                    continue
                for q, n in want.items():
                    e = got[q]
                    wx = sorted(n.xattrs.items()) if "-X" not in sopt else []
                    if e["type"] != n.type or e["mode"] != n.mode & 0o7777 or sorted(e.get("xattrs") or []) != wx or (n.type == "slink" and e["target"] != n.target):
                        oc.violate("sqfs2tar:sockets:entry-differs", "opts %s %r: %r" % (sopt, q, e), {"image.sqfs": img})
                        break
                else:
                    oc.inc("socket_images_ok")
                if not res.err.strip():      # "skipped with a warning": any message will do
                    oc.violate("sqfs2tar:sockets:no-warning", "stderr %r" % res.err[-200:])
        oc.sample = {"case": "sockets-%d" % idx, "long_dir": len(long_dir)}
    except Exception:
        oc.inconclusive.append("harness exception: %s" % traceback.format_exc()[-900:])
    return oc


def unrepresentable_case(arg):
    """Owner ids that do not fit the 32 bit id table (PAX records, base-256 header fields): the archive must be refused, not stored with
    the ids reduced modulo 2^32."""
    idx, tier = arg
    oc = core.Outcome("ids-%d" % idx)
    try:
        B = build.build("asan")
        big = [(1 << 32) + 1, (1 << 33) + 7, (1 << 32), (1 << 40) + 5][idx % 4]
        dialect, numeric = (("pax", "pax"), ("gnu", "auto"), ("oldgnu", "auto"))[idx % 3]
        which = ("uid", "gid")[(idx // 2) % 2]
        w = tarmodel.TarWriter(dialect, numeric=numeric)
        w.add(b"before", Node("file", 0o644, data=[("bytes", b"b")]))
        w.add(b"f", Node("file", 0o644, uid=big if which == "uid" else 5, gid=big if which == "gid" else 6, data=[("bytes", b"x")]))
        tar = w.finish()
        oc.features = ("unrepresentable-id", dialect, which, big)
        with core.Scratch("c04u") as work:
            out = os.path.join(work, "o.sqfs")
            res = core.run_tool([B["tar2sqfs"], "-q", "-f", out], stdin=tar, timeout=120)
            oc.inc("unrepresentable_id_runs")
            if res.san:
                oc.violate(res.san, "tar2sqfs", {"stderr.txt": res.err, "a.tar": tar})
            elif res.rc == 0:
                m = sqfsimg.tree_model(sqfsimg.parse(open(out, "rb").read()))
                oc.violate("tar2sqfs:unrepresentable-id-accepted:%s" % dialect, "%s=%d stored as %r" % (which, big, m.get(b"f", {}).get(which)), {"a.tar": tar})
            else:
                oc.inc("unrepresentable_id_refused")
                if os.path.exists(out):
                    oc.violate("tar2sqfs:unrepresentable-id:output-left-behind", "")
        oc.sample = {"case": "%s %s=%d" % (dialect, which, big)}
    except Exception:
        oc.inconclusive.append("harness exception: %s" % traceback.format_exc()[-900:])
    return oc


def _canon(p):
    """Path canonicalisation as specified (C18): None iff a component is '..'; no leading/trailing/repeated slashes, no '.' components."""
    comps = [c for c in p.split(b"/") if c not in (b"", b".")]
    if any(c == b".." for c in comps):
        return None
    return b"/".join(comps)


def _groups(m):
    g = {}
    for p, e in m.items():
        g.setdefault(e["ino"], []).append(p)
    return g


def main(tier):
    rep = core.Report(PROP, tier, "exploration",
                      "each evaluation = one generated archive (dialects v7/ustar/pre-POSIX/GNU/PAX; name and link lengths around 100/155/256; sizes around 512; octal, base-256 and PAX numbers "
                      "incl. negative and > 2^33 mtimes; old GNU/0.0/0.1/1.0 sparse maps with random hole layouts; SCHILY and LIBARCHIVE xattrs; hard links before/after targets; implicit parents; './', '' and '/' prefixes) "
                      "through tar2sqfs -> independent parser vs the intended tree, sqfs2tar -> Python tarfile + GNU tar, then two more round trips for the byte-exact fixpoint; "
                      "distinct = (dialect, sparse format, prefix, features used, options)")
    build.build("asan")
    n = 200 if tier == "quick" else 2500
    items = [(i, tier) for i in range(n)]
    for oc in core.pmap(socket_case, [(i, tier) for i in range(6 if tier == "quick" else 48)]):
        rep.add(oc)
    for oc in core.pmap(unrepresentable_case, [(i, tier) for i in range(12)]):
        rep.add(oc)
    only = os.environ.get("VERIF_ONLY")
    if only:
        items = [(int(only), tier)]
    for oc in core.pmap(run_case, items):
        if only:
            print(oc.sample, oc.violations, oc.inconclusive)
        oc.violations = [v for v in oc.violations if not v[0].startswith("c03:")] + [("tar-" + v[0], v[1], v[2]) for v in oc.violations if v[0].startswith("c03:")]
        rep.add(oc)
    rep.required_nonzero = ["members_compared", "gnu_tar_accepts", "fixpoints_checked", "dialect:v7", "dialect:ustar", "dialect:oldgnu", "dialect:gnu", "dialect:pax"]
    rep.inconclusive_cap = 0.05
    return rep.finish()
