"""C18 path canonicalisation: exhaustive enumeration + random strings against an independent spec, under ASan."""
import os, re
from . import core, build

PROP = "C18"


def run_shard(arg):
    exe, args = arg
    r = core.run_tool([exe] + args, timeout=3600, binary="canon_enum")
    return args, r


def main(tier):
    rep = core.Report(PROP, tier, "exploration",
                      "every string over {'/', '.', 'a', 'b', 0xC3} up to the stated length (exhaustive) plus seeded random strings up to 4096 bytes "
                      "over the full byte range; each in an exactly sized heap buffer under ASan; distinct_nontrivial = strings that the function "
                      "changes or refuses (counted by the harness)")
    exe = build.build_harness("asan", "canon_enum", [os.path.join(core.VERIF, "harness", "canon_enum.c")])
    maxlen = 10 if tier == "quick" else 12
    nsh = 16
    nrand = 200000 if tier == "quick" else 5000000
    items = [(exe, ["enum", str(maxlen), str(i), str(nsh)]) for i in range(nsh)]
    items += [(exe, ["rand", str(nrand // nsh), str(core.SEED * 1000 + i)]) for i in range(nsh)]
    tot = {"strings": 0, "fail": 0, "ok": 0, "changed": 0, "viol": 0}
    for args, r in core.pmap(run_shard, items):
        oc = core.Outcome(" ".join(args), features=(" ".join(args),))
        if r.san:
            oc.violate(r.san, "canon_enum " + " ".join(args), {"stderr.txt": r.err})
        elif r.hang:
            oc.inconclusive.append("timeout")
        for m in re.finditer(rb"VIOL (\S+) (\S*)", r.out):
            what = m.group(1).decode()
            s = bytes.fromhex(m.group(2).decode())
            oc.violate("canon:%s" % what, "input %r" % s, {"input.bin": s})
        m = re.search(rb"STAT strings=(\d+) fail=(\d+) ok=(\d+) changed=(\d+) viol=(\d+)", r.out)
        if not m:
            if not oc.violations:
                oc.inconclusive.append("no STAT line rc=%s err=%s" % (r.rc, r.err[-200:]))
        else:
            for k, v in zip(("strings", "fail", "ok", "changed", "viol"), m.groups()):
                tot[k] += int(v)
            oc.inc("strings", int(m.group(1)))
            oc.inc("refused", int(m.group(2)))
            oc.inc("rewritten", int(m.group(4)))
        oc.sample = {"args": args, "stat": m.group(0).decode() if m else None}
        rep.add(oc)
    rep.evaluations = tot["strings"]
    rep.distinct_override = tot["fail"] + tot["changed"]
    rep.exhaustive = True
    rep.extra["enumerated_max_length"] = maxlen
    rep.extra["alphabet"] = ["/", ".", "a", "b", "0xC3"]
    rep.extra["random_strings"] = nrand
    rep.required_nonzero = ["strings", "refused", "rewritten"]
    rep.assumptions = ["the specification function in harness/canon_enum.c states the property (split on '/', drop empty and '.', fail iff '..')"]
    return rep.finish()
