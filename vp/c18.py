"""C18 path canonicalisation: exhaustive enumeration + random strings against an independent spec, under ASan."""
import os, re, hashlib, traceback
from . import core, build, gentree
from .gentree import Node

PROP = "C18"


def run_shard(arg):
    exe, args = arg
    r = core.run_tool([exe] + args, timeout=3600, binary="canon_enum")
    return args, r


def canon(p):
    """The specification: None iff a component is '..'; otherwise the components without empty ones and '.'."""
    comps = [c for c in p.split(b"/") if c not in (b"", b".")]
    if any(c == b".." for c in comps):
        return None
    return b"/".join(comps)


def spellings(p):
    a, b = p.split(b"/", 1) if b"/" in p else (p, b"")
    return [p, b"./" + p, b"/" + p, b"//" + p, p + b"/", p + b"/.", b"./" + p + b"/.", p.replace(b"/", b"//"), p.replace(b"/", b"/./"), b"././" + p, p + b"//",
            b"/./" + p + b"/./", b"../" + p, p + b"/..", a + b"/../" + p, b"./..", b"..", p + b"/../" + (b or a), b"./" + p + b"/.."]


def tool_level(arg):
    """'All tools funnel command line paths, sort file names and unpack / sub directory paths through these functions': every spelling of a
    path must give exactly the result of its canonical spelling, and a spelling with a '..' component must be refused."""
    kind, path = arg
    oc = core.Outcome("tool:%s" % kind, features=("tool", kind))
    try:
        B = build.build("asan")
        t = {b"": Node("dir", 0o755), b"d": Node("dir", 0o755), b"d/x": Node("file", 0o644, data=[("words", 1, 3 * 4096 + 7)]), b"d/sub": Node("dir", 0o755),
             b"d/sub/z z": Node("file", 0o644, data=[("words", 2, 5000)]), b"foo": Node("dir", 0o750), b"foo/bar": Node("dir", 0o755),
             b"foo/bar/f": Node("file", 0o644, data=[("bytes", b"f")]), b".hidden": Node("dir", 0o755), b".hidden/h": Node("file", 0o644, data=[("bytes", b"h")])}
        with core.Scratch("c18") as work:
            root = os.path.join(work, "in")
            gentree.materialise_dir(t, root)
            img = os.path.join(work, "i.sqfs")
            if core.run_tool([B["gensquashfs"], "-q", "-b", "4096", "-D", root, img]).rc != 0:
                oc.inconclusive.append("cannot build the image")
                return oc
            tar = core.run_tool([B["sqfs2tar"], img]).out

            def run(P):
                h = lambda b: hashlib.sha256(b).hexdigest()
                if kind in ("rdsquashfs-stat", "rdsquashfs-cat", "rdsquashfs-list"):
                    r = core.run_tool([B["rdsquashfs"], {"rdsquashfs-stat": "-s", "rdsquashfs-cat": "-c", "rdsquashfs-list": "-l"}[kind], P, img])
                    return r, (r.rc, h(r.out))
                if kind in ("sqfs2tar-subdir", "sqfs2tar-root-becomes"):
                    r = core.run_tool([B["sqfs2tar"], "-d" if kind == "sqfs2tar-subdir" else "-r", P, img])
                    return r, (r.rc, h(r.out))
                if kind == "tar2sqfs-root-becomes":
                    o = os.path.join(work, "o.sqfs")
                    r = core.run_tool([B["tar2sqfs"], "-q", "-f", "-r", P, o], stdin=tar)
                    return r, (r.rc, core.sha_file(o) if r.rc == 0 else None)
                sf, o = os.path.join(work, "s.txt"), os.path.join(work, "o.sqfs")
                with open(sf, "wb") as f:
                    f.write(b"-100 [dont_compress] " + (P if kind == "sort-file-plain" else b'"' + P + b'"') + b"\n")
                r = core.run_tool([B["gensquashfs"], "-q", "-f", "-b", "4096", "-D", root, "-S", sf, o])
                return r, (r.rc, core.sha_file(o) if r.rc == 0 else None)
            r0, ref = run(path)
            if r0.san or ref[0] != 0:
                oc.inconclusive.append("canonical spelling fails: rc=%s %s" % (ref[0], r0.err[-200:]))
                return oc
            for P in spellings(path):
                c = canon(P)
                r, got = run(P)
                oc.inc("tool_spellings")
                if r.san:
                    oc.violate(r.san, "%s with %r" % (kind, P), {"stderr.txt": r.err})
                elif c is None:
                    oc.inc("tool_refusals_expected")
                    if got[0] == 0:
                        oc.violate("canon:tool:%s:dotdot-accepted" % kind, "%r is accepted although a component is '..'" % P)
                elif c == path and got != ref:
                    oc.violate("canon:tool:%s:spelling-changes-result" % kind, "%r (canonical %r): rc=%s, result differs from the canonical spelling's" % (P, c, got[0]))
                else:
                    oc.inc("tool_equivalent")
        oc.sample = {"tool": kind, "path": path.decode(), "spellings": len(spellings(path))}
    except Exception:
        oc.inconclusive.append("harness exception: %s" % traceback.format_exc()[-800:])
    return oc


TOOL_CASES = [("rdsquashfs-stat", b"d/x"), ("rdsquashfs-cat", b"d/sub/z z"), ("rdsquashfs-list", b"foo/bar"), ("sqfs2tar-subdir", b"foo/bar"), ("sqfs2tar-root-becomes", b"foo/bar"),
              ("sqfs2tar-root-becomes", b".hidden"), ("tar2sqfs-root-becomes", b"foo/bar"), ("sort-file-plain", b"d/x"), ("sort-file-quoted", b"d/sub/z z"), ("sort-file-quoted", b"d/x")]


def main(tier):
    rep = core.Report(PROP, tier, "exploration",
                      "every string over {'/', '.', 'a', 'b', 0xC3} up to the stated length (exhaustive) plus seeded random strings up to 4096 bytes "
                      "over the full byte range; each in an exactly sized heap buffer under ASan; distinct_nontrivial = strings that the function "
                      "changes or refuses (counted by the harness); tool level: 19 spellings of a path given to rdsquashfs -s/-c/-l, sqfs2tar -d/-r, tar2sqfs -r and as plain / quoted "
                      "sort file names must behave exactly like the canonical spelling, spellings with a '..' component must be refused")
    exe = build.build_harness("asan", "canon_enum", [os.path.join(core.VERIF, "harness", "canon_enum.c")])
    maxlen = 10 if tier == "quick" else 12
    nsh = 16
    nrand = 200000 if tier == "quick" else 5000000
    items = [(exe, ["enum", str(maxlen), str(i), str(nsh)]) for i in range(nsh)]
    items += [(exe, ["rand", str(nrand // nsh), str(core.SEED * 1000 + i)]) for i in range(nsh)]
    tot = {"strings": 0, "fail": 0, "ok": 0, "changed": 0, "viol": 0}
    for args, r in core.pmap(run_shard, items):
        oc = core.Outcome(" ".join(args), features=(" ".join(args),))
        if r.san:
            oc.violate(r.san, "canon_enum " + " ".join(args), {"stderr.txt": r.err})
        elif r.hang:
            oc.inconclusive.append("timeout")
        for m in re.finditer(rb"VIOL (\S+) (\S*)", r.out):
            what = m.group(1).decode()
            s = bytes.fromhex(m.group(2).decode())
            oc.violate("canon:%s" % what, "input %r" % s, {"input.bin": s})
        m = re.search(rb"STAT strings=(\d+) fail=(\d+) ok=(\d+) changed=(\d+) viol=(\d+)", r.out)
        if not m:
            if not oc.violations:
                oc.inconclusive.append("no STAT line rc=%s err=%s" % (r.rc, r.err[-200:]))
        else:
            for k, v in zip(("strings", "fail", "ok", "changed", "viol"), m.groups()):
                tot[k] += int(v)
            oc.inc("strings", int(m.group(1)))
            oc.inc("refused", int(m.group(2)))
            oc.inc("rewritten", int(m.group(4)))
        oc.sample = {"args": args, "stat": m.group(0).decode() if m else None}
        rep.add(oc)
    for oc in core.pmap(tool_level, TOOL_CASES):
        rep.add(oc)
    rep.evaluations = tot["strings"]
    rep.distinct_override = tot["fail"] + tot["changed"]
    rep.exhaustive = True
    rep.extra["enumerated_max_length"] = maxlen
    rep.extra["alphabet"] = ["/", ".", "a", "b", "0xC3"]
    rep.extra["random_strings"] = nrand
    rep.required_nonzero = ["strings", "refused", "rewritten", "tool_spellings", "tool_equivalent", "tool_refusals_expected"]
    rep.assumptions = ["the specification function in harness/canon_enum.c states the property (split on '/', drop empty and '.', fail iff '..')"]
    return rep.finish()
