"""C17: sort file and packing switches have exactly their documented effect on the on-disk layout."""
import os, re, traceback
from . import core, build, gentree, sqfsimg, views, packcase
from .gentree import Node

PROP = "C17"
FLAGS = ["dont_compress", "dont_fragment", "nosparse", "dont_deduplicate"]


def glob_to_re(pat, pathname):
    out = ""
    for ch in pat:
        if ch == "*":
            out += "[^/]*" if pathname else ".*"
        elif ch == "?":
            out += "[^/]" if pathname else "."
        else:
            out += re.escape(ch)
    return re.compile("^" + out + "$", re.S)


def make_tree(r, bs):
    t = {b"": Node("dir", 0o755)}
    dirs = [b"", b"bin", b"lib", b"lib/sub", b"my dir"]
    for d in dirs[1:]:
        t[d] = Node("dir", 0o755)
    names = [b"alpha", b"beta", b"gamma", b"delta", b"a b", b'q"x', b"back\\s", b"zeta", b"eta", b"theta", b"iota.so", b"kappa.so"]
    files = []
    k = 0
    for d in dirs:
        for nm in r.sample(names, r.choice([2, 3, 4])):
            p = d + b"/" + nm if d else nm
            if p in t:
                continue
            kind = r.choice(["small", "blocks", "blocks+tail", "zeros", "exact", "zero-mid"])
            u = b"%05d-" % k
            k += 1
            if kind == "small":
                data = [("rep", u + b"small", r.randrange(10, bs - 1))]
            elif kind == "blocks":
                data = [("rep", u + b"blk", bs * r.choice([1, 2, 3]))]
            elif kind == "blocks+tail":
                data = [("rep", u + b"bt", bs * r.choice([1, 2]) + r.randrange(1, bs - 1))]
            elif kind == "zeros":
                data = [("zero", bs * r.choice([1, 2]) + r.choice([0, 17]))]
            elif kind == "exact":
                data = [("rand", k, bs)]
            else:
                data = [("rep", u + b"zm", bs), ("zero", bs), ("rep", u + b"zz", bs // 2)]
            t[p] = Node("file", 0o644, data=data)
            files.append(p)
    # one pair of identical files for dont_deduplicate
    t[b"dup1"] = Node("file", 0o644, data=[("rep", b"duplicate-content", bs + 100)])
    t[b"zz_dup2"] = Node("file", 0o644, data=[("rep", b"duplicate-content", bs + 100)])
    files += [b"dup1", b"zz_dup2"]
    return t, files


def quote_sort_name(p, r):
    if any(c in p for c in b' "\\') or r.random() < 0.3:
        return b'"' + p.replace(b"\\", b"\\\\").replace(b'"', b'\\"') + b'"'
    return p


def make_sort_file(r, files):
    lines = []
    rules = []
    n = r.choice([2, 4, 6, 9])
    for _ in range(n):
        prio = r.choice([-100000, -5, -1, 0, 0, 1, 7, 7, 7, 9223372036854775806, -9223372036854775806, 1337])
        flags = [f for f in FLAGS if r.random() < 0.25]
        kind = r.choice(["exact", "exact", "glob", "glob_no_path", "exact-dup"])
        if kind == "exact":
            p = r.choice(files)
            pat, mode = p, None
        elif kind == "exact-dup":
            pat, mode = b"zz_dup2", None
        elif kind == "glob":
            pat, mode = r.choice([b"bin/*", b"lib/*", b"*", b"lib/sub/?eta", b"*/*a*", b"my dir/*"]), "glob"
        else:
            pat, mode = r.choice([b"*a*", b"lib*", b"*.so", b"*sub/*", b"?????"]), "glob_no_path"
        fl = ([mode] if mode else []) + flags
        line = b"%d " % prio
        if fl:
            line += b"[" + ",".join(fl).encode() + b"] "
        line += quote_sort_name(pat, r) if mode is None else pat
        if r.random() < 0.2:
            line = b"  \t" + line + b"   "
        lines.append(line)
        rules.append((prio, mode, pat, set(flags)))
    if r.random() < 0.3:
        lines.insert(r.randrange(len(lines) + 1), b"# a comment")
        lines.insert(r.randrange(len(lines) + 1), b"")
    return b"\n".join(lines) + b"\n", rules


def spec_assign(files, rules):
    """Documented semantics: first matching line wins per file; priority default 0; flags of the matching line."""
    out = {}
    for f in files:
        out[f] = (0, set())
        for prio, mode, pat, flags in rules:
            if mode is None:
                ok = (pat == f)
            else:
                ok = bool(glob_to_re(pat.decode("latin1"), mode == "glob").match(f.decode("latin1")))
            if ok:
                out[f] = (prio, flags)
                break
    return out


def placement(im, files):
    """Position keys per file: class A (stored blocks) -> blocks_start; class B (tail) -> (frag idx, off)."""
    A, Bk = {}, {}
    for f in files:
        ino = im.tree[f]
        if any(w & 0xFFFFFF for w in ino.block_words):
            A[f] = ino.blocks_start
        if ino.frag_idx != sqfsimg.NOFRAG:
            Bk[f] = (ino.frag_idx, ino.frag_off)
    return A, Bk


def run_case(arg):
    idx, tier = arg
    oc = core.Outcome("case-%d" % idx)
    try:
        B = build.build("asan")
        r = core.rng_for(PROP, "case", idx)
        bs = r.choice([4096, 8192, 16384])
        comp = r.choice(["gzip", "xz", "zstd", "lz4"])
        T = r.random() < 0.4
        e = r.random() < 0.5
        devbs = r.choice([None, 1024, 8192, 3000, 5000])
        tree, files = make_tree(r, bs)
        sortf, rules = make_sort_file(r, files)
        if idx % 8 == 5:
            # directed: the only tail ends in the image are zero bytes kept by nosparse, so a fragment block is all zero
            tree = {b"": Node("dir", 0o755), b"blk": Node("file", 0o644, data=[("rep", b"blk", bs * 2)]),
                    b"zt": Node("file", 0o644, data=[("zero", bs * r.choice([0, 1, 2]) + r.choice([1, 17, bs - 1]))]),
                    b"zt2": Node("file", 0o644, data=[("rep", b"zt2", bs), ("zero", r.choice([5, 17]))]),
                    b"dup1": Node("file", 0o644, data=[("rep", b"duplicate-content", bs * 2)]),
                    b"zz_dup2": Node("file", 0o644, data=[("rep", b"duplicate-content", bs * 2)])}
            files = [b"blk", b"zt", b"zt2", b"dup1", b"zz_dup2"]
            sortf = b"%d [nosparse] zt\n%d [glob,nosparse] zt?\n" % (r.choice([-3, 0, 5]), r.choice([-3, 0, 5]))
            rules = [(int(sortf.split()[0]), None, b"zt", {"nosparse"}), (int(sortf.split(b"\n")[1].split()[0]), "glob", b"zt?", {"nosparse"})]
        assign = spec_assign(files, rules)
        with core.Scratch("c17") as work:
            root = os.path.join(work, "in")
            gentree.materialise_dir(tree, root)
            sf = os.path.join(work, "sort.txt")
            with open(sf, "wb") as f:
                f.write(sortf)
            groups = [["-c", comp], ["-b", str(bs)], ["-q"], ["-j", str(r.choice([1, 3]))]] + ([["-T"]] if T else []) + ([["-e"]] if e else []) + ([["-B", str(devbs)]] if devbs else [])
            r.shuffle(groups)      # the effect of a switch must not depend on where it stands on the command line
            base = [x for g in groups for x in g]
            o0, o1 = os.path.join(work, "o0.sqfs"), os.path.join(work, "o1.sqfs")
            r0 = core.run_tool([B["gensquashfs"]] + base + ["-D", root, o0], timeout=300)
            r1 = core.run_tool([B["gensquashfs"]] + base + ["-D", root, "-S", sf, o1], timeout=300)
            oc.sample = {"case": idx, "comp": comp, "bs": bs, "T": T, "e": e, "sort_file": sortf.decode("latin1"), "exit": [r0.rc, r1.rc]}
            oc.features = (comp, bs, T, e, tuple(sorted((m or "exact", tuple(sorted(fl))) for _, m, _, fl in rules)))
            for rr in (r0, r1):
                if rr.san:
                    oc.violate(rr.san, "gensquashfs", {"stderr.txt": rr.err})
                    return oc
            if r0.rc != 0 or r1.rc != 0:
                oc.violate("directive:pack-fails", "rc=%s/%s %s" % (r0.rc, r1.rc, (r0.err + r1.err)[-300:]), {"sort.txt": sortf})
                return oc
            try:
                im0 = sqfsimg.parse(open(o0, "rb").read())
                im1 = sqfsimg.parse(open(o1, "rb").read())
            except sqfsimg.ParseError as ex:
                oc.violate("directive:c03:unparseable-image", str(ex)[:300], {"sort.txt": sortf})
                return oc
            for rule, where, detail in im1.problems:
                oc.violate("directive:c03:" + rule, "%s %s" % (where, detail), {"sort.txt": sortf})
            # tree and contents unchanged
            m0, m1 = sqfsimg.tree_model(im0), sqfsimg.tree_model(im1)
            for p in m0:
                a, b = dict(m0[p]), dict(m1.get(p, {}))
                a.pop("ino", None); b.pop("ino", None)
                if a != b:
                    oc.violate("directive:tree-or-content-changed", "%r: %r vs %r" % (p, a, b), {"sort.txt": sortf})
                    break
            for p, n in tree.items():
                if n.type == "file" and im1.tree[p].sha256 != gentree.spec_sha(n.data):
                    oc.violate("directive:content-differs", repr(p), {"sort.txt": sortf})
            # default order from the image packed without directives
            A0, B0 = placement(im0, files)
            A1, B1 = placement(im1, files)
            dups = {b"dup1", b"zz_dup2"}

            def check_order(P0, P1, cls):
                d_order = sorted((f for f in P0 if f in P1 and f not in dups), key=lambda f: P0[f])
                exp = sorted(d_order, key=lambda f: assign[f][0])     # stable
                got = sorted(exp, key=lambda f: P1[f])
                oc.inc("order_files_" + cls, len(exp))
                if exp != got:
                    # first position where they differ
                    i = next(i for i in range(len(exp)) if exp[i] != got[i])
                    oc.violate("directive:order:%s" % cls, "expected %r before %r (priorities %r); got order %r" % (exp[i], got[i], [assign[f][0] for f in exp[:i + 2]], got[:i + 2]), {"sort.txt": sortf})
                elif any(assign[f][0] != 0 for f in exp):
                    oc.inc("order_checked_nontrivial")
            # files whose class changes because of dont_fragment are compared only where they are in the same class in both images
            check_order(A0, A1, "blocks")
            check_order(B0, B1, "tails")
            # flags
            for f in files:
                prio, fl = assign[f]
                ino = im1.tree[f]
                size = ino.size
                if "dont_compress" in fl:
                    oc.inc("flag_dont_compress")
                    if any((w & 0xFFFFFF) and not (w & (1 << 24)) for w in ino.block_words):
                        oc.violate("directive:dont_compress:block-compressed", repr(f), {"sort.txt": sortf})
                    # (a tail deduplicated against an identical file without the flag is outside what the man page describes)
                    if f not in dups and ino.frag_idx != sqfsimg.NOFRAG and not (im1.frags[ino.frag_idx][1] & (1 << 24)):
                        oc.violate("directive:dont_compress:fragment-block-compressed", repr(f), {"sort.txt": sortf})
                if "dont_fragment" in fl:
                    oc.inc("flag_dont_fragment")
                    if ino.frag_idx != sqfsimg.NOFRAG:
                        oc.violate("directive:dont_fragment:has-fragment", repr(f), {"sort.txt": sortf})
                if "nosparse" in fl:
                    oc.inc("flag_nosparse")
                    if size > 0 and (any((w & 0xFFFFFF) == 0 for w in ino.block_words) or (ino.sparse or 0) != 0):
                        oc.violate("directive:nosparse:zero-block-omitted", "%r words %r sparse %r" % (f, ino.block_words[:4], ino.sparse), {"sort.txt": sortf})
                # -T: fragment reference absent exactly for files larger than one block (unless dont_fragment)
                if "dont_fragment" not in fl and size > 0 and size % bs != 0:
                    tail_all_zero = False
                    n = tree[f]
                    last = n.data[-1] if n.data else None
                    if last and last[0] == "zero" and gentree.seg_len(last) >= size % bs and "nosparse" not in fl:
                        tail_all_zero = True
                    has_frag = ino.frag_idx != sqfsimg.NOFRAG
                    want_frag = not (T and size > bs)
                    if not tail_all_zero:
                        oc.inc("tail_rule_checked")
                        if has_frag != want_frag:
                            oc.violate("directive:tail-packing:%s" % ("T" if T else "default"), "%r size %d block %d: fragment=%s expected %s" % (f, size, bs, has_frag, want_frag), {"sort.txt": sortf})
            # dont_deduplicate on the second of two identical files
            i1, i2 = im1.tree[b"dup1"], im1.tree[b"zz_dup2"]
            first, second = (b"dup1", b"zz_dup2") if (assign[b"dup1"][0], 0) <= (assign[b"zz_dup2"][0], 1) else (b"zz_dup2", b"dup1")
            shared_blocks = i1.blocks_start == i2.blocks_start
            shared_frag = (i1.frag_idx, i1.frag_off) == (i2.frag_idx, i2.frag_off) and i1.frag_idx != sqfsimg.NOFRAG
            if "dont_deduplicate" in assign[second][1]:
                oc.inc("flag_dont_deduplicate")
                if shared_blocks or shared_frag:
                    oc.violate("directive:dont_deduplicate:shares-storage", "second file %r shares %s with %r" % (second, "blocks" if shared_blocks else "fragment", first), {"sort.txt": sortf})
            elif not (assign[first][1] | assign[second][1]) & {"dont_fragment", "dont_compress", "nosparse", "dont_deduplicate"}:
                oc.inc("dup_pair_shared_checked")
                if not shared_blocks:
                    oc.violate("directive:dedup-lost", "identical files with identical flags do not share blocks", {"sort.txt": sortf})
            # export table is checked by the validator (export.entry-is-ref); make sure it is there iff -e
            if e != (im1.export is not None):
                oc.violate("directive:exportable", "-e=%s table=%s" % (e, im1.export is not None))
            if e:
                oc.inc("export_tables")
            flen = len(im1.data)
            if flen % (devbs or 4096):
                oc.violate("directive:dev-block-size", "length %d not multiple of %d" % (flen, devbs or 4096))
    except Exception:
        oc.inconclusive.append("harness exception: %s" % traceback.format_exc()[-800:])
    return oc


def main(tier):
    rep = core.Report(PROP, tier, "exploration",
                      "each evaluation = one tree packed twice by gensquashfs (ASan): without and with a generated sort file (priorities incl. negatives/ties/int64 limits, exact/quoted names, "
                      "glob and glob_no_path patterns, overlapping lines, flag subsets) x -T, -e, -b, -B; the decoded layout must follow an executable statement of the man page semantics "
                      "(first match wins, stable ascending priority order for data blocks and for tails, per-flag storage effects, -T only for files larger than one block) and the tree/contents must be unchanged; "
                      "distinct = (compressor, block size, switches, rule kinds and flag sets)")
    build.build("asan")
    n = 160 if tier == "quick" else 2500
    for oc in core.pmap(run_case, [(i, tier) for i in range(n)]):
        rep.add(oc)
    rep.required_nonzero = ["order_checked_nontrivial", "flag_dont_compress", "flag_dont_fragment", "flag_nosparse", "flag_dont_deduplicate", "tail_rule_checked", "export_tables"]
    rep.assumptions = ["default packing order is read off the image packed without a sort file; only patterns with unambiguous meaning are generated (*, ?, literals)"]
    return rep.finish()
