"""C07: untrusted tar streams and description files never crash or hang the packers; exit 0 means a valid image,
exit != 0 means a diagnostic and no output file."""
import os, itertools, traceback, struct
from . import core, build, gentree, sqfsimg, tarmodel, codecs
from .gentree import Node
from .tarmodel import _header, _pad, _pax_record

PROP = "C07"
WATCHDOG = 8


def base_archives(r):
    out = []
    t = {b"": Node("dir", 0o755), b"d": Node("dir", 0o755), b"d/f": Node("file", 0o644, data=[("rand", 1, 1300)], xattrs={b"user.a": b"b"}),
         b"d/s": Node("slink", 0o777, target=b"f"), b"d/h": Node("file", link_to=b"d/f"), b"c": Node("cdev", 0o600, dev=(1, 2)),
         b"sp": Node("file", 0o644, data=[("rand", 2, 600), ("zero", 4096), ("rand", 3, 100), ("zero", 1024)]),
         b"n" * 120: Node("file", 0o600, data=[("bytes", b"long name")]), b"ls": Node("slink", 0o777, target=b"t" * 130)}
    for dialect, sparse in (("v7", None), ("ustar", None), ("oldgnu", "old"), ("gnu", "old"), ("pax", "0.0"), ("pax", "0.1"), ("pax", "1.0")):
        tt = tarmodel.representable(t, dialect, sparse)
        tar, _ = tarmodel.write_tree(tt, dialect, sparse, name_prefix=b"./" if dialect != "v7" else b"")
        out.append(("%s-%s" % (dialect, sparse), tar))
    return out


def header_offsets(tar):
    offs = []
    pos = 0
    while pos + 512 <= len(tar) and tar[pos:pos + 512] != bytes(512):
        h = tar[pos:pos + 512]
        szf = h[124:136]
        try:
            size = int.from_bytes(szf[1:], "big") if szf[0] & 0x80 else int(szf.strip(b"\0 ") or b"0", 8)
        except ValueError:
            break
        tf = h[156:157]
        offs.append((pos, tf, size))
        pos += 512 + ((size + 511) // 512 * 512 if tf not in (b"1", b"2", b"3", b"4", b"5", b"6") else 0)
    return offs


def fix_checksum(h):
    h = bytearray(h)
    h[148:156] = b"        "
    h[148:156] = b"%06o\0 " % sum(h)
    return bytes(h)


def tar_mutants(r, tier):
    """Yield (class, bytes)."""
    bases = base_archives(r)
    FIELDS = {"name": (0, 100), "mode": (100, 8), "uid": (108, 8), "gid": (116, 8), "size": (124, 12), "mtime": (136, 12), "chksum": (148, 8),
              "typeflag": (156, 1), "linkname": (157, 100), "magic": (257, 8), "devmajor": (329, 8), "devminor": (337, 8), "prefix": (345, 155)}
    VALUES = [b"", b"\xff" * 12, b"7" * 12, b" " * 12, b"-1", b"\x80" + b"\xff" * 11, b"\xff" + b"\x00" * 11, b"99999999999", b"0000000000008", b"abc",
              b"../x", b"/abs/name", b"a/../../b", b".", b"..", b"a" * 100, b"\x00", b"d/f/", b"d/f/under-a-file"]
    for bname, tar in bases:
        offs = header_offsets(tar)
        # truncations
        cuts = list(range(512, len(tar), 512)) if tier == "thorough" else r.sample(range(512, len(tar), 512), min(12, len(tar) // 512 - 1))
        for c in cuts:
            yield "truncate-512", tar[:c]
        for _ in range(6):
            yield "truncate-random", tar[:r.randrange(1, len(tar))]
        # header field edits (with and without a repaired checksum)
        for pos, tf, size in offs:
            for fname, (fo, fl) in FIELDS.items():
                vals = VALUES if tier == "thorough" else r.sample(VALUES, 3)
                for v in vals:
                    h = bytearray(tar[pos:pos + 512])
                    h[fo:fo + fl] = (v + bytes(fl))[:fl]
                    hb = bytes(h) if fname == "chksum" or r.random() < 0.2 else fix_checksum(h)
                    yield "field-%s" % fname, tar[:pos] + hb + tar[pos + 512:]
            for tfv in (b"S", b"L", b"K", b"x", b"g", b"1", b"2", b"7", b"Z", b"\xff"):
                h = bytearray(tar[pos:pos + 512])
                h[156:157] = tfv
                yield "typeflag-%s" % tfv.decode("latin1"), tar[:pos] + fix_checksum(h) + tar[pos + 512:]
        # random byte noise
        for _ in range(10 if tier == "quick" else 200):
            b = bytearray(tar)
            for _k in range(r.choice([1, 3, 20])):
                b[r.randrange(len(b))] = r.getrandbits(8)
            yield "noise", bytes(b)
    # PAX record edits
    def pax_member(records_raw, name=b"f", size=5):
        body = records_raw
        hdr = _header(b"PaxHeaders/x", 0o644, 0, 0, len(body), 0, b"x", b"", "pax")
        return hdr + _pad(body) + _header(name, 0o644, 0, 0, size, 0, b"0", b"", "pax") + _pad(b"12345"[:size])
    paxes = [b"0 path=x\n", b"5 path=x\n", b"99999 path=x\n", b"-4 path=x\n", b"12 pathx\n", b"11 path=x", b"18 path=../../etc\n", b"13 path=/abs\n", b"10 path=\n",
             b"30 size=99999999999999999999\n", b"12 size=-5\n", b"18 size=4294967296\n", b"11 uid=abc\n", b"23 mtime=-99999999999\n", b"16 mtime=1e400\n",
             b"29 GNU.sparse.map=0,1,2,3,4\n", b"26 GNU.sparse.map=5,1,0,9\n", b"21 GNU.sparse.map=,,,\n", b"28 GNU.sparse.offset=99999999\n", b"27 GNU.sparse.numbytes=9999999\n",
             b"25 GNU.sparse.size=1234567\n", b"22 GNU.sparse.major=1\n22 GNU.sparse.minor=0\n", b"30 SCHILY.xattr.=emptykeyvalue\n", b"26 SCHILY.xattr.user.a=\xff\xfe\n",
             b"31 LIBARCHIVE.xattr.user.a=!!!!\n", b"33 LIBARCHIVE.xattr.%zz%1=QUJD\n", _pax_record(b"path", b"p" * 5000), _pax_record(b"linkpath", b"l" * 70000),
             b"7 a=b\n" * 3000, b"\n\n\n", b"9" * 30 + b" x=y\n"]
    for p in paxes:
        yield "pax-record", pax_member(p) + bytes(1024)
    # sequences of sparse records inside one PAX header: a list installed first (valid map, or 0.0 offset/numbytes pairs),
    # then a malformed or a second map, then more pairs
    good_map = _pax_record(b"GNU.sparse.map", b"0,1,2,1")
    pairs = _pax_record(b"GNU.sparse.offset", b"0") + _pax_record(b"GNU.sparse.numbytes", b"1") + _pax_record(b"GNU.sparse.offset", b"3") + _pax_record(b"GNU.sparse.numbytes", b"1")
    bad_maps = [_pax_record(b"GNU.sparse.map", v) for v in (b"0,1,2", b"5,1,0,9", b",,,", b"0,1,x,2", b"", b"1", b"0,99999999999999999999", b"-1,1")]
    more = _pax_record(b"GNU.sparse.offset", b"5") + _pax_record(b"GNU.sparse.numbytes", b"1")
    size = _pax_record(b"GNU.sparse.size", b"9") + _pax_record(b"GNU.sparse.numblocks", b"3")
    for first in (good_map, pairs, size + pairs, good_map + pairs):
        for bad in bad_maps + [good_map]:
            for tail_ in (b"", more, good_map, more + bad_maps[0]):
                yield "pax-record", pax_member(first + bad + tail_, size=2) + bytes(1024)
    # sparse maps
    def old_sparse(entries, realsize, datasize):
        h = bytearray(_header(b"sp", 0o644, 0, 0, datasize, 0, b"S", b"", "gnu"))
        pos = 386
        for o, l in entries[:4]:
            h[pos:pos + 12] = tarmodel._num(o, 12, True)
            h[pos + 12:pos + 24] = tarmodel._num(l, 12, True)
            pos += 24
        h[482] = 1 if len(entries) > 4 else 0
        h[483:495] = tarmodel._num(realsize, 12, True)
        out = fix_checksum(h)
        rest = entries[4:]
        while rest:
            blk = bytearray(512)
            chunk, rest = rest[:21], rest[21:]
            q = 0
            for o, l in chunk:
                blk[q:q + 12] = tarmodel._num(o, 12, True)
                blk[q + 12:q + 24] = tarmodel._num(l, 12, True)
                q += 24
            blk[504] = 1 if rest else 0
            out += bytes(blk)
        return out + _pad(b"D" * datasize) + bytes(1024)
    for ents, rs, ds in (([(0, 10), (5, 10)], 100, 20), ([(50, 10), (10, 10)], 100, 20), ([(0, 10)], 5, 10), ([], 100, 0),
                         ([(0, 0)] * 30, 100, 0), ([(i * 2, 1) for i in range(30000)], 60000, 30000) if tier == "thorough" else ([(i * 2, 1) for i in range(3000)], 6000, 3000),
                         ([(0, 600)], 600, 100), ([(0, 100)], 1 << 62, 100)) + ((([(2 ** 63 - 5, 10)], 2 ** 63 + 5, 10), ([(1 << 40, 10)], 1 << 41, 10)) if tier == "thorough" else ()):
        yield ("sparse-huge-realsize" if rs >= (1 << 40) else "sparse-old"), old_sparse(ents, rs, ds)
    for m in (b"2\n0\n10\n5\n10\n", b"99999999\n", b"1\n-1\n5\n", b"1\n0\n", b"abc\n", b"3\n0\n1\n", b"0\n", b"1\n99999999999999999999\n1\n", b"2\n10\n5\n0\n5\n"):
        body = _pad(m) + b"DATA"
        recs = _pax_record(b"GNU.sparse.major", b"1") + _pax_record(b"GNU.sparse.minor", b"0") + _pax_record(b"GNU.sparse.name", b"real") + _pax_record(b"GNU.sparse.realsize", b"100")
        yield "sparse-1.0", _header(b"PaxHeaders/x", 0o644, 0, 0, len(recs), 0, b"x", b"", "pax") + _pad(recs) + \
            _header(b"GNUSparseFile.0/real", 0o644, 0, 0, len(body), 0, b"0", b"", "pax") + _pad(body) + bytes(1024)
    # all hard-link graphs over <= 3 (quick) / 4 (thorough) names
    names = [b"a", b"b", b"c"] + ([b"e"] if tier == "thorough" else [])
    choices = ["file"] + ["->%s" % n.decode() for n in names] + ["->missing", "->d", "->d/x"]
    for combo in itertools.product(choices, repeat=len(names)):
        if all(c == "file" for c in combo):
            continue
        for order in ([0], [0, 1]) if tier == "quick" else ([0], [1]):
            w = tarmodel.TarWriter("gnu")
            w.add(b"d", Node("dir", 0o755))
            w.add(b"d/x", Node("file", 0o644, data=[("bytes", b"x")]))
            seq = list(zip(names, combo))
            if order == [1] or (order == [0, 1] and False):
                seq = seq[::-1]
            for nm, c in seq:
                if c == "file":
                    w.add(nm, Node("file", 0o644, data=[("bytes", nm)]))
                else:
                    w.add(nm, Node("file", 0o644, data=[]), linkname=c[2:].encode())
            yield "hardlink-graph", w.finish()
    # GNU long name records
    for body in (b"x" * 5000, b"", b"no-terminator", b"a/" * 3000, b"../up\0", b"\0\0\0"):
        yield "gnu-longname", _header(b"././@LongLink", 0o644, 0, 0, len(body), 0, b"L", b"", "gnu") + _pad(body) + _header(b"short", 0o644, 0, 0, 0, 0, b"0", b"", "gnu") + bytes(1024)
    # compressed wrappers with damage
    tar = bases[3][1]
    for codec in ("gzip", "xz", "zstd", "bzip2"):
        c = codecs.compress(codec, tar)
        for _ in range(3):
            b = bytearray(c)
            b[r.randrange(len(b))] ^= 1 << r.randrange(8)
            yield "compressed-bitflip", bytes(b)
        yield "compressed-truncated", c[:len(c) // 2]
        yield "compressed-garbage-suffix", c + b"GARBAGE" * 10
        yield "compressed-header-only", c[:8]
    for junk in (b"", b"\0" * 512, b"\0" * 10240, b"not a tar archive at all\n" * 50, b"\x1f\x8b", b"\xfd7zXZ\0", b"BZh9", b"\x28\xb5\x2f\xfd"):
        yield "junk", junk


PACK_OK = b"""# comment
dir /dev 0755 0 0
nod /dev/console 0600 0 0 c 5 1
slink /lib 0777 0 0 /usr/lib
link /init 0777 0 0 /sbin/init
dir /sbin 0755 0 0
file /sbin/init 0755 0 0 data
file "/opt/my app/\\"special\\"/data" 0600 5 6 data
pipe /p 0644 1 2
sock /s 0644 1 2
glob /g 0755 0 0 -type f -name "*a*" .
"""
SORT_OK = b"""# sort
-5 [glob] sbin/*
10 [dont_compress,dont_fragment] "opt/my app/\\"special\\"/data"
0 sbin/init
"""
XATTR_OK = b"""# file: dev/
security.selinux="system_u:object_r:device_t:s0"
user.beverage=0xCAFECAFE

# file: sbin/init
user.b64=0sSGVsbG8=
user.esc="a\\\\b\\"c\\012"
"""


def text_mutants(r, tier, ok, kind):
    lines = ok.split(b"\n")
    yield kind + ":valid", ok
    fragments = [b'"', b'\\', b'\\x', b'"unterminated', b"..", b"../..", b"/../x", b"\0", b"99999999999999999999999", b"-1", b"0x", b"0s!!!", b"0xZZ", b"[", b"]", b"[glob", b"[unknown_flag]",
                 b"\r", b"\t\t", b"#", b"=", b"a" * 70000, b"glob", b"-type", b"-type q", b"-name", b"--", b"link /a 0 0 0 /a", b"link /x 0 0 0 /y\nlink /y 0 0 0 /x",
                 b"link /l1 0 0 0 /l2\nlink /l2 0 0 0 /l3\nlink /l3 0 0 0 /l2", b"file / 0644 0 0", b"dir /a/../../b 0755 0 0", b"nod /n 0600 0 0 x 1 2", b"nod /n 0600 0 0 c 99999999999 1",
                 b"file /f 07777777 0 0 data", b"file /f 0644 4294967296 0 data", b"slink /s 0777 0 0", b"# file: ../x", b"# file: ", b"user.a=", b"=value", b"user.a=\"\\", b"user.a=0s", b"user.a=0x1",
                 # quoted value escapes: backslash right before the closing quote, short / long / non-octal escapes
                 b'user.q1="abc\\"', b'user.q2="\\"', b'user.q3="\\\\"', b'user.q4="\\0"', b'user.q5="\\9"', b'user.q6="\\777"', b'user.q7="\\1\\12\\123\\1234"', b'user.q8="a\\',
                 b'user.q9=""', b'user.q10="', b'user.q11="a"b"', b"user.q12=0x", b"user.q13=0xA", b"user.q14=0s=", b"user.q15=0sQQ", b"user.q16=0sQUJD=", b'"abc\\"', b'\\"']
    # deterministic pass: every fragment as a line of its own (start, middle, end) and appended to a line
    for fr in fragments:
        for k in (0, len(lines) // 2, len(lines) - 1):
            ls = list(lines)
            ls.insert(k, fr)
            yield kind + ":fragment-line", b"\n".join(ls)
        ls = list(lines)
        k = r.randrange(len(ls))
        ls[k] = ls[k] + b" " + fr
        yield kind + ":fragment-appended", b"\n".join(ls)
    n = 60 if tier == "quick" else 1500
    for i in range(n):
        ls = list(lines)
        for _ in range(r.choice([1, 1, 2, 4])):
            op = r.randrange(6)
            k = r.randrange(len(ls))
            if op == 0:
                ls.insert(k, r.choice(fragments))
            elif op == 1:
                ls[k] = ls[k] + b" " + r.choice(fragments)
            elif op == 2 and ls[k]:
                p = r.randrange(len(ls[k]))
                ls[k] = ls[k][:p] + r.choice(fragments) + ls[k][p:]
            elif op == 3 and ls[k]:
                p = r.randrange(len(ls[k]))
                ls[k] = ls[k][:p] + bytes([r.getrandbits(8)]) + ls[k][p + 1:]
            elif op == 4:
                toks = ls[k].split(b" ")
                if len(toks) > 1:
                    del toks[r.randrange(len(toks))]
                ls[k] = b" ".join(toks)
            else:
                ls[k] = ls[k].replace(b" ", r.choice([b"\t", b"  ", b"\r"]), 1)
        sep = r.choice([b"\n", b"\n", b"\r\n"])
        data = sep.join(ls)
        if r.random() < 0.2:
            data = data.rstrip(b"\r\n")
        yield kind + ":mutated", data


NOQUIET_OPTS = [["-c", "lz4"], ["-c", "lz4", "-X", "hc"], ["-c", "gzip", "-X", "level=3"], ["-c", "xz", "-X", "dictsize=8192"], ["-c", "zstd", "-X", "level=3"], ["-c", "gzip"], ["-c", "xz"]]


def noquiet_case(arg):
    """Valid inputs with and without file content, packed WITHOUT -q (the statistics code runs) under compressor settings with and without an options block."""
    idx, tier = arg
    oc = core.Outcome("noquiet-%d" % idx, features=("noquiet", idx))
    try:
        B = build.build("asan")
        with core.Scratch("c07q") as work:
            out = os.path.join(work, "o.sqfs")
            contents = [("empty-files", [(b"d/", None), (b"d/e", b""), (b"l", "->d/e")]), ("dirs-only", [(b"a/", None), (b"a/b/", None)]),
                        ("one-byte", [(b"f", b"x")]), ("zeros", [(b"z", bytes(5000))])][idx % 4]
            w = tarmodel.TarWriter("gnu")
            for nm, body in contents[1]:
                if body is None:
                    w.add(nm.rstrip(b"/"), Node("dir", 0o755))
                elif isinstance(body, str):
                    w.add(nm, Node("slink", 0o777, target=body[2:].encode()))
                else:
                    w.add(nm, Node("file", 0o644, data=[("bytes", body)] if body else []))
            tar = w.finish()
            root = os.path.join(work, "in")
            os.makedirs(root)
            for nm, body in contents[1]:
                full = os.path.join(os.fsencode(root), nm.rstrip(b"/"))
                if body is None:
                    os.makedirs(full, exist_ok=True)
                elif isinstance(body, str):
                    os.symlink(body[2:], full)
                else:
                    with open(full, "wb") as f:
                        f.write(body)
            for copts in NOQUIET_OPTS:
                for tool, argv, stdin in (("tar2sqfs", [B["tar2sqfs"]] + copts + ["-f", out], tar), ("gensquashfs", [B["gensquashfs"]] + copts + ["-f", "-D", root, out], None)):
                    if os.path.exists(out):
                        os.unlink(out)
                    run = lambda t=WATCHDOG, argv=argv, stdin=stdin: core.run_tool(argv, stdin=stdin, timeout=t, cwd=work)
                    res = run()
                    judge(oc, res, out, "statistics:%s" % contents[0], tar, tool, run)
                    if res.rc != 0 and not res.san and not res.hang:
                        oc.violate("%s:valid-input-rejected:statistics:%s" % (tool, contents[0]), "rc=%s %s" % (res.rc, res.err[-200:]))
    except Exception:
        oc.inconclusive.append("harness exception: %s" % traceback.format_exc()[-800:])
    return oc


def judge(oc, res, out, cls, data, tool, inputs):
    oc.inc("runs")
    oc.inc("class:" + cls.split(":")[0])
    wit = {"input.bin": data[:4 << 20]}
    if res.hang:
        if os.path.exists(out):
            os.unlink(out)
        res2 = inputs(WATCHDOG * 15)     # generous: slow (quadratic) is not the same as never
        if res2.hang:
            oc.violate("%s:hang:%s" % (tool, cls), "no exit within the watchdog twice", wit)
            return
        res = res2
    if res.san:
        oc.violate(res.san if "rss-limit" not in res.san else "%s:unbounded-resources:%s" % (tool, cls), cls, dict(wit, **{"stderr.txt": res.err[:20000]}))
        return
    if res.rc == 0:
        oc.inc("accepted")
        if not os.path.exists(out):
            oc.violate("%s:exit0-without-image:%s" % (tool, cls), "", wit)
            return
        try:
            im = sqfsimg.parse(open(out, "rb").read())
            for rule, where, detail in im.problems:
                oc.violate("%s:invalid-image:%s:%s" % (tool, rule, cls.split(":")[0]), "%s %s" % (where, detail), wit)
            oc.inc("images_validated")
        except sqfsimg.ParseError as e:
            oc.violate("%s:unreadable-image:%s" % (tool, cls.split(":")[0]), str(e)[:200], wit)
    else:
        oc.inc("rejected")
        if not res.err.strip():
            oc.violate("%s:silent-failure:%s" % (tool, cls.split(":")[0]), "exit %s with empty stderr" % res.rc, wit)
        if os.path.exists(out):
            oc.violate("%s:output-left-behind:%s" % (tool, cls.split(":")[0]), "exit %s but the output file exists" % res.rc, wit)


def run_batch(arg):
    bid, kind, items, tier = arg
    oc = core.Outcome("%s-%d" % (kind, bid), features=(kind, bid))
    try:
        B = build.build("asan")
        with core.Scratch("c07") as work:
            out = os.path.join(work, "o.sqfs")
            pdir = os.path.join(work, "pack")
            os.makedirs(pdir)
            with open(os.path.join(pdir, "data"), "wb") as f:
                f.write(b"payload " * 100)
            os.makedirs(os.path.join(pdir, "sub"))
            with open(os.path.join(pdir, "sub", "xa"), "wb") as f:
                f.write(b"x")
            okpack = os.path.join(work, "ok.txt")
            with open(okpack, "wb") as f:
                f.write(PACK_OK)
            for cls, data in items:
                if os.path.exists(out):
                    os.unlink(out)
                if kind == "tar":
                    run = lambda t=WATCHDOG: core.run_tool([B["tar2sqfs"], "-q", "-c", "gzip", out], stdin=data, timeout=t, cwd=work)
                    tool = "tar2sqfs"
                else:
                    fn = os.path.join(work, "in.txt")
                    with open(fn, "wb") as f:
                        f.write(data)
                    if cls.startswith("pack") and cls.endswith(":relative-no-packdir"):
                        # the pack file is named without a directory component and there is no --pack-dir
                        args = ["-F", "in.txt"]
                    elif cls.startswith("pack"):
                        args = ["-F", fn, "-D", pdir]
                    elif cls.startswith("sort"):
                        args = ["-F", okpack, "-D", pdir, "-S", fn]
                    else:
                        args = ["-F", okpack, "-D", pdir, "-A", fn]
                    run = lambda t=WATCHDOG: core.run_tool([B["gensquashfs"], "-q", "-c", "gzip"] + args + [out], timeout=t, cwd=work)
                    tool = "gensquashfs"
                res = run()
                judge(oc, res, out, cls, data, tool, run)
            oc.sample = {"kind": kind, "batch": bid, "classes": sorted(set(c for c, _ in items))[:6]}
    except Exception:
        oc.inconclusive.append("harness exception: %s" % traceback.format_exc()[-800:])
    return oc


def main(tier):
    rep = core.Report(PROP, tier, "exploration",
                      "structured mutants of archives in every dialect (truncation at 512-byte boundaries and random offsets; every header field overwritten with hostile values with and without a repaired "
                      "checksum; type flags; PAX record edits; old-GNU and 1.0 sparse map edits; all hard-link graphs over 3 (quick) / 4 (thorough) names incl. cycles, self links, links to directories and missing "
                      "names; GNU long-name records; damaged compressed wrappers; junk) piped into tar2sqfs, and mutated pack / sort / xattr files given to gensquashfs, all on the ASan+UBSan build with a watchdog; "
                      "exit 0 requires an image that the independent parser decodes and validates, exit != 0 requires a diagnostic and no output file; distinct = mutation classes x batches")
    build.build("asan")
    r = core.rng_for(PROP, "plan")
    tar_items = list(tar_mutants(r, tier))
    if tier == "quick" and len(tar_items) > 2500:
        keep = [x for x in tar_items if x[0] in ("hardlink-graph", "pax-record", "sparse-old", "sparse-1.0", "gnu-longname", "junk") or x[0].startswith("compressed")]
        rest = [x for x in tar_items if x not in keep]
        tar_items = keep + r.sample(rest, max(0, 2500 - len(keep)))
    rel = [("pack:relative-no-packdir", d) for d in (PACK_OK, b"glob / 0755 0 0 .\n", b"glob /g * * * -type f .\n", b"dir /d 0755 0 0\nfile /d/f 0644 0 0 in.txt\n", b"file /f 0644 0 0\n",
                                                     b"glob /x 0755 0 0 sub\n", b"file /in.txt 0644 0 0\nglob / * * * -name \"*.txt\" .\n")]
    text_items = rel + list(text_mutants(r, tier, PACK_OK, "pack")) + list(text_mutants(r, tier, SORT_OK, "sort")) + list(text_mutants(r, tier, XATTR_OK, "xattr"))
    per = 40
    slow = [x for x in tar_items if x[0] == "sparse-huge-realsize"]
    tar_items = [x for x in tar_items if x[0] != "sparse-huge-realsize"]
    batches = [(1000 + i, "tar", [x], tier) for i, x in enumerate(slow)]
    batches += [(i, "tar", tar_items[k:k + per], tier) for i, k in enumerate(range(0, len(tar_items), per))]
    batches += [(i, "text", text_items[k:k + per], tier) for i, k in enumerate(range(0, len(text_items), per))]
    classes = set()
    for oc in core.pmap(run_batch, batches):
        classes |= set(k for k in oc.counters if k.startswith("class:"))
        rep.add(oc)
    for oc in core.pmap(noquiet_case, [(i, tier) for i in range(4)]):
        classes |= set(k for k in oc.counters if k.startswith("class:"))
        rep.add(oc)
    rep.evaluations = rep.counters.get("runs", 0)
    rep.distinct_override = len(classes)
    rep.extra["tar_mutants"] = len(tar_items)
    rep.extra["text_mutants"] = len(text_items)
    rep.required_nonzero = ["runs", "accepted", "rejected", "images_validated", "class:hardlink-graph", "class:pax-record", "class:pack", "class:sort", "class:xattr", "class:truncate-512"]
    return rep.finish()
