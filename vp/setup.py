"""setup_cmd: build the variants once so the first check does not pay for it."""
import sys
from . import build
for v in ("asan", "plain", "serial", "tsan"):
    try:
        build.build(v)
        print("built", v)
    except Exception as e:
        print("build of %s failed: %s" % (v, e))
        sys.exit(1)
