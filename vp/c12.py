"""C12: results independent of short transfers, EINTR and pipe chunking."""
import os, subprocess, threading, time, traceback, hashlib
from . import core, build, gentree, views
from .gentree import Node

PROP = "C12"


def feeder_run(cmd, data, chunk, env, timeout=120):
    """Feed `data` to cmd's stdin in chunks of `chunk` bytes (None = all at once), waiting for the pipe to drain between chunks now and then."""
    e = dict(os.environ)
    e.update(env)
    p = subprocess.Popen(cmd, stdin=subprocess.PIPE, stdout=subprocess.PIPE, stderr=subprocess.PIPE, env=e, preexec_fn=core._die_with_parent)
    err = []

    def feed():
        try:
            fd = p.stdin.fileno()
            pos = 0
            n = 0
            while pos < len(data):
                c = chunk if chunk else len(data)
                os.write(fd, data[pos:pos + c])
                pos += c
                n += 1
                if chunk and chunk < 4096 and n % 64 == 0:
                    time.sleep(0.0002)
        except OSError as ex:
            err.append(ex)
        finally:
            try:
                p.stdin.close()
            except OSError:
                pass
    t = threading.Thread(target=feed)
    t.start()
    try:
        out, er = p.communicate(timeout=timeout) if False else (p.stdout.read(), p.stderr.read())
        p.wait(timeout=timeout)
    except subprocess.TimeoutExpired:
        p.kill()
        t.join()
        return None, b"", b"timeout"
    t.join()
    return p.returncode, out, er


def count_injections(evpath):
    n = {"short": 0, "eintr": 0}
    try:
        with open(evpath) as f:
            for l in f:
                p = l.split()
                if len(p) == 6:
                    if p[2] == "100":
                        n["short"] += 1
                    elif p[2] == "101":
                        n["eintr"] += 1
    except OSError:
        pass
    return n


def run_scenario(arg):
    idx, tier = arg
    oc = core.Outcome("scenario-%d" % idx)
    try:
        B = build.build("plain")
        r = core.rng_for(PROP, "sc", idx)
        bs = r.choice([4096, 8192, 32768])
        tree, feats = gentree.gen_tree(r, bs=bs, max_entries=40)
        for p, n in tree.items():
            if n.uid == 0xFFFFFFFF:
                n.uid = 3
            if n.gid == 0xFFFFFFFF:
                n.gid = 3
        # make sure there is a big enough file to need many transfers
        tree[b"bigfile"] = Node("file", 0o644, data=[("rand", idx, 300000 + r.randrange(100000)), ("rep", b"text", 200000)])
        comp = r.choice(["gzip", "xz", "zstd", "lz4"])
        nsched = 12 if tier == "quick" else 60
        with core.Scratch("c12") as work:
            root = os.path.join(work, "in")
            gentree.materialise_dir(tree, root)
            tarf = os.path.join(work, "in.tar")
            subprocess.run(["/usr/bin/tar", "--sort=name", "--numeric-owner", "--xattrs", "-cf", tarf, "-C", root, "."], check=True, stderr=subprocess.DEVNULL)
            tardata = open(tarf, "rb").read()
            img = os.path.join(work, "ref.sqfs")
            base = ["-c", comp, "-b", str(bs), "-q", "-f"]

            def sched_env(s):
                rr = core.rng_for(PROP, "sched", idx, s)
                return {"VERIF_IO": "seed=%d,pshort=%d,peintr=%d,maxeintr=%d,pone=%d" % (
                    core.SEED * 1000 + s, rr.choice([10, 40, 90]), rr.choice([0, 5, 30]), rr.choice([1, 3, 10]), rr.choice([5, 30, 80])),
                    "VERIF_EVLOG": os.path.join(work, "ev"), "VERIF_EVMAX": "4000000"}

            def compare(tag, clean, pert, inj):
                oc.inc("comparisons")
                oc.inc("inj_short", inj["short"])
                oc.inc("inj_eintr", inj["eintr"])
                if clean != pert:
                    what = "exit-status" if clean[0] != pert[0] else "output-bytes"
                    oc.violate("shortio:%s:%s" % (tag, what), "clean rc=%s sha=%s ; perturbed rc=%s sha=%s" % (clean[0], str(clean[1])[:12], pert[0], str(pert[1])[:12]))

            # --- scenario 1: gensquashfs pack-dir
            def gens(env):
                out = os.path.join(work, "g.sqfs")
                res = core.run_tool([B["gensquashfs"]] + base + ["-D", root, "-k", "-x", out], env=env, timeout=90)
                san = res.san
                rc = (res.rc, core.sha_file(out) if res.rc == 0 and os.path.exists(out) else None)
                if san:
                    oc.violate(san, "gensquashfs", {"stderr.txt": res.err})
                return rc
            clean = gens({})
            if clean[0] != 0:
                oc.inconclusive.append("clean gensquashfs failed")
                return oc
            for s in range(nsched):
                e = sched_env(s)
                compare("gensquashfs", clean, gens(e), count_injections(e["VERIF_EVLOG"]))
            # --- scenario 2: tar2sqfs from stdin, chunked feeder + injection
            def t2s(env, chunk):
                out = os.path.join(work, "t.sqfs")
                if os.path.exists(out):
                    os.unlink(out)
                rc, o, er = feeder_run([B["tar2sqfs"]] + base + [out], tardata, chunk, env)
                return (rc, core.sha_file(out) if rc == 0 and os.path.exists(out) else None)
            cleant = t2s({}, None)
            chunks = [1, 7, 511, 512, 513, 4095, 65536, None]
            for s in range(nsched):
                e = sched_env(100 + s)
                ch = chunks[s % len(chunks)]
                if ch == 1 and len(tardata) > 400000 and s > 0:
                    ch = 13
                compare("tar2sqfs-stdin", cleant, t2s(e, ch), count_injections(e["VERIF_EVLOG"]))
                oc.inc("pipe_chunkings")
            # --- scenario 2b: compressed archive on stdin: the format probe must not depend on how many bytes the first read returns
            from . import codecs
            for ci, codec in enumerate(["gzip", "xz", "zstd", "bzip2"]):
                cdata = codecs.compress(codec, tardata)

                def t2c(env, chunk, cdata=cdata):
                    out = os.path.join(work, "t.sqfs")
                    if os.path.exists(out):
                        os.unlink(out)
                    rc, o, er = feeder_run([B["tar2sqfs"]] + base + [out], cdata, chunk, env)
                    return (rc, core.sha_file(out) if rc == 0 and os.path.exists(out) else None)
                for s in range(2 if tier == "quick" else 6):
                    e = sched_env(150 + 10 * ci + s)
                    # mostly one-byte transfers at the start of the stream
                    e["VERIF_IO"] = "seed=%d,pshort=95,peintr=%d,maxeintr=2,pone=%d" % (core.SEED * 1000 + 150 + 10 * ci + s, (0, 20)[s % 2], (90, 60)[s % 2])
                    compare("tar2sqfs-stdin-" + codec, cleant, t2c(e, [None, 1, 3][s % 3]), count_injections(e["VERIF_EVLOG"]))
                    oc.inc("compressed_stdin_runs")
            # reference image for the readers
            res = core.run_tool([B["gensquashfs"]] + base + ["-D", root, "-k", "-x", img], timeout=90)
            # --- scenario 3: sqfs2tar to a pipe, plain and compressed
            def s2t(env, cargs):
                res = core.run_tool([B["sqfs2tar"]] + cargs + [img], env=env, timeout=90)
                if res.san:
                    oc.violate(res.san, "sqfs2tar", {"stderr.txt": res.err})
                return (res.rc, hashlib.sha256(res.out).hexdigest())
            for ci, cargs in enumerate([[], ["-c", "gzip"], ["-c", "xz"], ["-c", "zstd"], ["-c", "bzip2"]]):
                c0 = s2t({}, cargs)
                for s in range(max(2, nsched // 4)):
                    e = sched_env(200 + 10 * ci + s)
                    compare("sqfs2tar" + ("-" + cargs[1] if cargs else ""), c0, s2t(e, cargs), count_injections(e["VERIF_EVLOG"]))
            # --- scenario 4: rdsquashfs cat / unpack
            def cat(env):
                res = core.run_tool([B["rdsquashfs"], "-c", "/bigfile", img], env=env, timeout=90)
                return (res.rc, hashlib.sha256(res.out).hexdigest())
            c0 = cat({})
            for s in range(max(2, nsched // 4)):
                e = sched_env(300 + s)
                compare("rdsquashfs-cat", c0, cat(e), count_injections(e["VERIF_EVLOG"]))

            def unpack(env):
                d = os.path.join(work, "unp")
                views.force_rmtree(d)
                os.makedirs(d)
                res = core.run_tool([B["rdsquashfs"], "-u", "/", "-p", d, "-q", "-C", "-T", img], env=env, timeout=90)
                snap = views.snapshot_dir(d)
                h = hashlib.sha256(repr(sorted((p, e.get("type"), e.get("mode"), e.get("sha256"), e.get("target"), e.get("mtime")) for p, e in snap.items() if p)).encode()).hexdigest()
                views.force_rmtree(d)
                return (res.rc, h)
            c0 = unpack({})
            for s in range(max(2, nsched // 4)):
                e = sched_env(400 + s)
                compare("rdsquashfs-unpack", c0, unpack(e), count_injections(e["VERIF_EVLOG"]))
            # --- scenario 5: sqfsdiff
            def diff(env):
                res = core.run_tool([B["sqfsdiff"], "-a", img, "-b", os.path.join(work, "g.sqfs")], env=env, timeout=90)
                return (res.rc, hashlib.sha256(res.out).hexdigest())
            c0 = diff({})
            for s in range(2):
                e = sched_env(500 + s)
                compare("sqfsdiff", c0, diff(e), count_injections(e["VERIF_EVLOG"]))
            # --- scenario 6: failing runs must fail the same way: an image cut short (reads beyond the end of the file return 0 bytes)
            cut = os.path.join(work, "cut.sqfs")
            full = open(img, "rb").read()
            with open(cut, "wb") as f:
                f.write(full[:len(full) * r.choice([30, 60, 90]) // 100])
            for tag, argv in (("rdsquashfs-list-truncated", [B["rdsquashfs"], "-l", "/", cut]), ("sqfs2tar-truncated", [B["sqfs2tar"], cut]),
                              ("rdsquashfs-cat-truncated", [B["rdsquashfs"], "-c", "/bigfile", cut])):
                def trun(env, argv=argv):
                    res = core.run_tool(argv, env=env, timeout=40)
                    return (None if res.hang else res.rc, hashlib.sha256(res.out).hexdigest() if not res.hang else None)
                c0 = trun({})
                for s in range(2 if tier == "quick" else 6):
                    e = sched_env(600 + s)
                    e["VERIF_IO"] = "seed=%d,pshort=%d,peintr=%d,maxeintr=3,pone=20" % (core.SEED * 1000 + 600 + s, (0, 50)[s % 2], (60, 30)[s % 2])
                    compare(tag, c0, trun(e), count_injections(e["VERIF_EVLOG"]))
                    oc.inc("truncated_image_runs")
            oc.features = (comp, bs, idx)
            oc.sample = {"scenario": idx, "comp": comp, "bs": bs, "tar_bytes": len(tardata), "schedules": nsched}
    except Exception:
        oc.inconclusive.append("harness exception: %s" % traceback.format_exc()[-800:])
    return oc


def main(tier):
    rep = core.Report(PROP, tier, "exploration",
                      "each evaluation = one tool run under a seeded schedule of short counts (down to 1 byte) and EINTR on every read/write/pread/pwrite "
                      "of project code (link-time wrappers) and, for tar2sqfs, a stdin feeder with chunk sizes 1..65536 (plain and gzip/xz/zstd/bzip2 archives, one-byte reads at the format probe); readers also on an image cut short; compared (exit status, output sha256) "
                      "with the unperturbed run of the same tool; distinct = distinct (input, compressor, block size)")
    build.build("plain")
    n = 10 if tier == "quick" else 40
    for oc in core.pmap(run_scenario, [(i, tier) for i in range(n)]):
        rep.add(oc)
    rep.extra["inputs"] = rep.evaluations
    rep.evaluations = rep.counters.get("comparisons", 0)
    rep.required_nonzero = ["comparisons", "inj_short", "inj_eintr", "pipe_chunkings"]
    return rep.finish()
