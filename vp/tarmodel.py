"""Independent tar writer with dialect control, driven by the abstract tree model of gentree,
and a reader of sqfs2tar output based on Python's tarfile."""
import io, os, base64, tarfile, urllib.parse
from . import gentree
from .gentree import Node

DIALECTS = ["v7", "ustar", "oldgnu", "gnu", "pax"]
SPARSE_FORMATS = [None, "old", "0.0", "0.1", "1.0"]
U32 = 0xFFFFFFFF


def _octal(val, width):
    s = b"%0*o" % (width - 1, val)
    if len(s) > width - 1:
        raise OverflowError
    return s + b"\0"


def _base256(val, width):
    if val >= 0:
        b = val.to_bytes(width - 1, "big")
        return b"\x80" + b
    b = (val + (1 << (8 * (width - 1)))).to_bytes(width - 1, "big")
    return b"\xff" + b


def _num(val, width, allow_b256):
    if val >= 0:
        try:
            return _octal(val, width)
        except OverflowError:
            pass
    if not allow_b256:
        raise OverflowError("value %d does not fit" % val)
    return _base256(val, width)


def _header(name, mode, uid, gid, size, mtime, typeflag, linkname, dialect, devmajor=0, devminor=0, prefix=b"", b256=True, force_b256=False):
    h = bytearray(512)
    h[0:len(name)] = name
    h[100:108] = _octal(mode & 0o7777, 8)
    nb = (lambda v, w: _base256(v, w)) if force_b256 else (lambda v, w: _num(v, w, b256))
    h[108:116] = nb(uid, 8)
    h[116:124] = nb(gid, 8)
    h[124:136] = nb(size, 12)
    h[136:148] = nb(mtime, 12)
    h[148:156] = b"        "
    h[156:157] = typeflag
    h[157:157 + len(linkname)] = linkname
    if dialect in ("ustar", "pax"):
        h[257:263] = b"ustar\0"
        h[263:265] = b"00"
    elif dialect in ("oldgnu", "gnu"):
        h[257:265] = b"ustar  \0"
    if dialect != "v7":
        h[265:270] = b"root\0"
        h[297:302] = b"root\0"
        h[329:337] = _octal(devmajor, 8)
        h[337:345] = _octal(devminor, 8)
        h[345:345 + len(prefix)] = prefix
    chk = sum(h)
    h[148:156] = b"%06o\0 " % chk
    return bytes(h)


def _pad(data):
    r = len(data) % 512
    return data + (bytes(512 - r) if r else b"")


def _pax_record(key, value):
    body = b" " + key + b"=" + value + b"\n"
    n = len(body) + 1
    while True:
        s = b"%d" % n + body
        if len(s) == n:
            return s
        n = len(s)


def _split_ustar(name):
    """name -> (prefix, name) or None if it does not fit."""
    if len(name) <= 100:
        return b"", name
    for i in range(len(name)):
        if name[i:i + 1] == b"/" and i <= 155 and len(name) - i - 1 <= 100 and len(name) - i - 1 > 0:
            return name[:i], name[i + 1:]
    return None


def sparse_layout(spec, threshold=512):
    """content spec -> (data regions [(offset, length)], real size, data bytes)"""
    regions = []
    data = bytearray()
    off = 0
    for s in spec:
        n = gentree.seg_len(s)
        if s[0] == "zero" and n >= threshold:
            off += n
            continue
        b = b"".join(gentree.seg_chunks(s))
        if regions and regions[-1][0] + regions[-1][1] == off:
            regions[-1] = (regions[-1][0], regions[-1][1] + n)
        else:
            regions.append((off, n))
        data += b
        off += n
    return regions, off, bytes(data)


class TarWriter:
    def __init__(self, dialect="gnu", sparse=None, xattr_style="schily", name_prefix=b"", numeric="auto", r=None):
        self.d = dialect
        self.sparse = sparse
        self.xattr_style = xattr_style
        self.name_prefix = name_prefix
        self.numeric = numeric      # auto | pax | b256
        self.out = bytearray()
        self.r = r
        self.notes = set()
        # true V7 archives mark directories by a trailing slash only (every second v7 archive, decided by the seeded generator)
        self.v7_dirs_by_name = bool(r and dialect == "v7" and r.random() < 0.5)

    def _emit_ext(self, typeflag, name, payload):
        hdr = _header(name[:100], 0o644, 0, 0, len(payload), 0, typeflag, b"", self.d if self.d != "v7" else "ustar")
        self.out += hdr + _pad(payload)

    def add(self, path, n, linkname=None, is_dir_entry=False):
        d = self.d
        name = self.name_prefix + path
        if n.type == "dir" and not name.endswith(b"/"):
            name += b"/"
        if name == b"":
            name = b"./"
        tf = {"file": b"0", "dir": b"5", "slink": b"2", "cdev": b"3", "bdev": b"4", "fifo": b"6"}.get(n.type)
        if tf is None:
            raise ValueError("tar cannot express %s" % n.type)
        if linkname is not None:
            tf = b"1"
        if d == "v7" and tf == b"0":
            tf = b"\0"
        if d == "v7" and tf == b"5" and self.v7_dirs_by_name:
            # Unix V7 has no type flag for directories: a directory is a member whose name ends in '/'
            tf = b"\0"
            self.notes.add("v7-dir-by-trailing-slash")
        link = linkname if linkname is not None else (n.target if n.type == "slink" else b"")
        pax = []
        uid, gid, mtime = n.uid, n.gid, n.mtime
        size = 0
        payload = b""
        sparse_hdr_extra = None
        realsize = None
        if n.type == "file" and linkname is None:
            spec = n.data or []
            if self.sparse and any(s[0] == "zero" and gentree.seg_len(s) >= 512 for s in spec):
                regions, realsize, payload = sparse_layout(spec)
                if not regions:
                    regions = [(realsize, 0)]
                self.notes.add("sparse-" + self.sparse)
                if self.sparse == "old":
                    sparse_hdr_extra = regions
                elif self.sparse == "0.0":
                    pax.append((b"GNU.sparse.size", b"%d" % realsize))
                    pax.append((b"GNU.sparse.numblocks", b"%d" % len(regions)))
                    for o, l in regions:
                        pax.append((b"GNU.sparse.offset", b"%d" % o))
                        pax.append((b"GNU.sparse.numbytes", b"%d" % l))
                elif self.sparse == "0.1":
                    if self.r and self.r.random() < 0.5:
                        # the way GNU tar writes 0.x members: real name in GNU.sparse.name, a made up name in the header
                        # (and, if that one is too long for the header, in a path record that FOLLOWS GNU.sparse.name)
                        pax.append((b"GNU.sparse.name", name))
                        name = os.path.dirname(name) + b"/GNUSparseFile.4659/" + os.path.basename(name) if b"/" in name else b"GNUSparseFile.4659/" + name
                        self.notes.add("sparse-0.1-fake-header-name")
                    pax.append((b"GNU.sparse.size", b"%d" % realsize))
                    pax.append((b"GNU.sparse.numblocks", b"%d" % len(regions)))
                    pax.append((b"GNU.sparse.map", b",".join(b"%d,%d" % (o, l) for o, l in regions)))
                elif self.sparse == "1.0":
                    pax.append((b"GNU.sparse.major", b"1"))
                    pax.append((b"GNU.sparse.minor", b"0"))
                    pax.append((b"GNU.sparse.name", name))
                    pax.append((b"GNU.sparse.realsize", b"%d" % realsize))
                    m = b"%d\n" % len(regions) + b"".join(b"%d\n%d\n" % (o, l) for o, l in regions)
                    payload = _pad(m) + payload
                    name = os.path.dirname(name) + b"/GNUSparseFile.0/" + os.path.basename(name) if b"/" in name else b"GNUSparseFile.0/" + name
                    name = name[:90]
            else:
                payload = gentree.spec_bytes(spec)
            size = len(payload)
        # xattrs
        if n.xattrs and linkname is None:
            if d != "pax":
                raise ValueError("xattrs need the pax dialect")
            for k, v in n.xattrs.items():
                if self.xattr_style == "schily":
                    pax.append((b"SCHILY.xattr." + k, v))
                else:
                    pax.append((b"LIBARCHIVE.xattr." + urllib.parse.quote_from_bytes(k, safe="").encode(), base64.b64encode(v)))
            self.notes.add("xattr-" + self.xattr_style)
        # numbers
        big = lambda v, w: v < 0 or v >= 8 ** (w - 1)
        force_b256 = False
        if d == "pax" and self.numeric == "pax":
            if big(uid, 8):
                pax.append((b"uid", b"%d" % uid)); uid = 0
            if big(gid, 8):
                pax.append((b"gid", b"%d" % gid)); gid = 0
            if big(mtime, 12):
                pax.append((b"mtime", b"%d" % mtime)); mtime = 0
            if big(size, 12):
                pax.append((b"size", b"%d" % size))
            self.notes.add("num-pax")
        elif self.numeric == "b256":
            force_b256 = True
            self.notes.add("num-b256")
        if big(uid, 8) or big(gid, 8) or big(mtime, 12):
            if d in ("v7", "ustar") and not force_b256:
                raise ValueError("numeric field too large for dialect")
            self.notes.add("num-b256")
        # names
        prefix = b""
        hname = name
        sparse10 = any(k == b"GNU.sparse.major" for k, _ in pax)
        if d == "pax" and sparse10:
            hname = name[:100]
        elif d == "pax":
            if len(name) > 100 or any(c >= 0x80 for c in name) and self.r and self.r.random() < 0.3:
                pax.append((b"path", name))
                hname = name[:100]
                self.notes.add("pax-path")
            if len(link) > 100:
                pax.append((b"linkpath", link))
                self.notes.add("pax-linkpath")
        elif d == "ustar":
            sp = _split_ustar(name)
            if sp is None or len(link) > 100:
                raise ValueError("name too long for ustar")
            prefix, hname = sp
            if prefix:
                self.notes.add("ustar-prefix")
        elif d in ("gnu", "oldgnu"):
            if len(link) > 100:
                self._emit_ext(b"K", b"././@LongLink", link + b"\0")
                self.notes.add("gnu-longlink")
            if len(name) > 100:
                self._emit_ext(b"L", b"././@LongLink", name + b"\0")
                hname = name[:100]
                self.notes.add("gnu-longname")
        else:
            if len(name) > 100 or len(link) > 100:
                raise ValueError("name too long for v7")
        if pax:
            self._emit_ext(b"x", b"PaxHeaders/" + os.path.basename(path)[:80], b"".join(_pax_record(k, v) for k, v in pax))
        dev = n.dev or (0, 0)
        if sparse_hdr_extra is not None:
            self.out += self._old_gnu_sparse(hname[:100], n, uid, gid, size, mtime, realsize, sparse_hdr_extra)
        else:
            self.out += _header(hname[:100], n.mode, uid, gid, size, mtime, tf, link[:100], d, dev[0], dev[1], prefix, force_b256=force_b256)
        self.out += _pad(payload)

    def _old_gnu_sparse(self, name, n, uid, gid, size, mtime, realsize, regions):
        h = bytearray(_header(name, n.mode, uid, gid, size, mtime, b"S", b"", "gnu"))
        # old GNU header: sparse entries at 386 (4 x (12+12)), isextended at 482, realsize at 483
        first, rest = regions[:4], regions[4:]
        pos = 386
        # GNU tar stores numbers that need more than 11 octal digits in base-256 (offsets from 8 GiB on); readers accept
        # base-256 for any value, so the b256 numeric mode uses it for every map entry
        _num = (lambda v, w, allow: _base256(v, w)) if self.numeric == "b256" else globals()["_num"]
        if self.numeric == "b256":
            self.notes.add("sparse-map-base256")
        for o, l in first:
            h[pos:pos + 12] = _num(o, 12, True)
            h[pos + 12:pos + 24] = _num(l, 12, True)
            pos += 24
        h[482] = 1 if rest else 0
        h[483:495] = _num(realsize, 12, True)
        h[148:156] = b"        "
        h[148:156] = b"%06o\0 " % sum(h)
        out = bytes(h)
        while rest:
            blk = bytearray(512)
            chunk, rest = rest[:21], rest[21:]
            pos = 0
            for o, l in chunk:
                blk[pos:pos + 12] = _num(o, 12, True)
                blk[pos + 12:pos + 24] = _num(l, 12, True)
                pos += 24
            blk[504] = 1 if rest else 0
            out += bytes(blk)
        return out

    def finish(self, trailer=True, pad_to=None):
        if trailer:
            self.out += bytes(1024)
        if pad_to:
            r = len(self.out) % pad_to
            if r:
                self.out += bytes(pad_to - r)
        return bytes(self.out)


def representable(tree, dialect, sparse):
    """Adapt a tree for a dialect (drop what it cannot express) -> new tree."""
    out = {}
    for p, n in tree.items():
        if n.type == "sock":
            continue
        if b"\n" in p and dialect == "pax":
            pass
        n2 = n.copy()
        if dialect != "pax":
            n2.xattrs = {}
        big = lambda v, w: v < 0 or v >= 8 ** (w - 1)
        if dialect in ("v7", "ustar"):
            if big(n2.uid, 8):
                n2.uid = n2.uid & 0o7777777
            if big(n2.gid, 8):
                n2.gid = n2.gid & 0o7777777
            if big(n2.mtime, 12):
                n2.mtime = 12345
        name = p + (b"/" if n.type == "dir" else b"")
        link = n.target or b""
        if dialect == "v7" and (len(name) > 98 or len(link) > 100):
            continue
        if dialect == "ustar" and (_split_ustar(b"./" + name) is None or len(link) > 100):
            continue
        if dialect == "v7" and n.type in ("cdev", "bdev", "fifo"):
            continue
        out[p] = n2
    # drop children of dropped directories and links to dropped targets
    for p in list(out):
        if any(par not in out and par != b"" for par in gentree.parents(p)):
            del out[p]
    for p in list(out):
        n = out[p]
        if n.link_to is not None and n.link_to not in out:
            del out[p]
        elif n.link_to is not None and dialect in ("v7", "ustar") and len(n.link_to) > 98:
            del out[p]
    if b"" not in out:
        out[b""] = Node("dir", 0o755)
    return out


def write_tree(tree, dialect="gnu", sparse=None, xattr_style="schily", name_prefix=b"./", numeric="auto", order=None,
               omit_dirs=(), root_entry=True, links_first=False, r=None, trailer=True, pad_to=None):
    """Serialise `tree`. Returns (bytes, notes)."""
    w = TarWriter(dialect, sparse, xattr_style, name_prefix, numeric, r)
    paths = order or gentree.sort_paths([p for p in tree if p])
    if root_entry and name_prefix in (b"./", b"") and dialect != "v7":
        w.add(b"", tree[b""])
    prim = [p for p in paths if tree[p].link_to is None]
    links = [p for p in paths if tree[p].link_to is not None]
    seq = (links + prim) if links_first else None
    if seq is None:
        seq = paths
    for p in seq:
        n = tree[p]
        if p in omit_dirs:
            continue
        if n.link_to is not None:
            src = tree[n.link_to]
            w.add(p, src, linkname=name_prefix_strip(name_prefix) + n.link_to)
        else:
            w.add(p, n)
    return w.finish(trailer, pad_to), w.notes


def name_prefix_strip(prefix):
    return prefix if prefix in (b"./", b"/") else b""


# ------------------------------------------------------------------ reading sqfs2tar output

def raw_pax_xattrs(data):
    """Binary-safe scan of the raw archive: list (per real member, in order) of [(key, value)] from SCHILY.xattr pax records."""
    res = []
    pos = 0
    pending = []
    while pos + 512 <= len(data):
        h = data[pos:pos + 512]
        if h == bytes(512):
            break
        szf = h[124:136]
        if szf[0] & 0x80:
            size = int.from_bytes(szf[1:], "big")
        else:
            size = int(szf.strip(b"\0 ") or b"0", 8)
        tf = h[156:157]
        body = data[pos + 512:pos + 512 + size]
        if tf == b"x":
            pending = []
            q = 0
            while q < len(body):
                sp = body.index(b" ", q)
                ln = int(body[q:sp])
                rec = body[sp + 1:q + ln - 1]
                k, _, v = rec.partition(b"=")
                if k.startswith(b"SCHILY.xattr."):
                    pending.append((k[13:], v))
                elif k == b"size":
                    pass
                q += ln
        elif tf in (b"L", b"K", b"g"):
            pass
        else:
            res.append(pending)
            pending = []
        pos += 512 + (size + 511) // 512 * 512 if tf not in (b"1", b"2", b"3", b"4", b"5", b"6") else 512
    return res


def read_tar(data):
    """Python tarfile -> model: path -> dict (type, mode, uid, gid, mtime, target, devno, xattrs, sha256, linkname)."""
    import hashlib
    out = {}
    order = []
    rawx = raw_pax_xattrs(data)
    tf = tarfile.open(fileobj=io.BytesIO(data), mode="r:", encoding="latin-1", errors="surrogateescape")
    for m in tf:
        name = m.name.encode("latin-1")
        if m.pax_headers.get("path") is not None:
            name = m.pax_headers["path"].encode("latin-1")
        name = name.rstrip(b"/")
        e = {"mode": m.mode & 0o7777, "uid": m.uid, "gid": m.gid, "mtime": int(m.mtime)}
        if m.isdir():
            e["type"] = "dir"
        elif m.isreg():
            e["type"] = "file"
            f = tf.extractfile(m)
            h = hashlib.sha256()
            while True:
                b = f.read(1 << 20)
                if not b:
                    break
                h.update(b)
            e["sha256"] = h.hexdigest()
            e["size"] = m.size
        elif m.issym():
            e["type"] = "slink"
            e["target"] = m.linkname.encode("latin-1")
        elif m.islnk():
            e["type"] = "hardlink"
            e["linkname"] = m.linkname.encode("latin-1")
        elif m.ischr():
            e["type"] = "cdev"
            e["devno"] = gentree.devno(m.devmajor, m.devminor)
        elif m.isblk():
            e["type"] = "bdev"
            e["devno"] = gentree.devno(m.devmajor, m.devminor)
        elif m.isfifo():
            e["type"] = "fifo"
        else:
            e["type"] = "other-%r" % m.type
        xs = rawx[len(order)] if len(order) < len(rawx) else []
        e["xattrs"] = sorted(xs)
        e["xattr_order"] = [k for k, _ in xs]
        out[name] = e
        order.append(name)
    tf.close()
    return out, order
