"""System call path audit for the unpacker (C06): the real rdsquashfs runs under strace and every path handed to a file system
modifying system call after the chdir into the unpack root is judged lexically and against the symbolic links the run itself created.
An attempt counts even if the call failed (a failed attempt leaves no trace in a before/after snapshot)."""
import codecs, os, re, subprocess

STR = re.compile(rb'"((?:[^"\\]|\\.)*)"(\.\.\.)?')
LINE = re.compile(rb'^(\d+)\s+(\w+)\((.*)\)\s+=\s+(-?\d+|\?)(.*)$')

# syscall -> indexes (among the string literals of the call) of paths that are created / modified / removed
MODIFY = {
    b"mkdir": [0], b"mkdirat": [0], b"mknod": [0], b"mknodat": [0], b"symlink": [1], b"symlinkat": [1], b"link": [0, 1], b"linkat": [0, 1],
    b"chmod": [0], b"fchmodat": [0], b"chown": [0], b"lchown": [0], b"fchownat": [0], b"utimensat": [0], b"utimes": [0], b"utime": [0],
    b"setxattr": [0], b"lsetxattr": [0], b"removexattr": [0], b"lremovexattr": [0], b"unlink": [0], b"unlinkat": [0], b"rmdir": [0],
    b"rename": [0, 1], b"renameat": [0, 1], b"renameat2": [0, 1], b"truncate": [0], b"creat": [0],
}
FOLLOWS_FINAL = {b"chmod", b"chown", b"setxattr", b"removexattr", b"truncate", b"utimes", b"utime", b"creat"}   # always follow a final symlink
NOFOLLOW_FLAG = {b"fchmodat", b"fchownat", b"utimensat"}                                                       # follow unless AT_SYMLINK_NOFOLLOW


def unescape(s):
    return codecs.escape_decode(s)[0]


def audit(argv, cwd, root, env=None, timeout=120):
    """Run argv under strace.  Returns (returncode, stderr bytes, list of (rule, detail), stats)."""
    log = os.path.join(cwd, ".strace.%d" % os.getpid())
    cmd = ["strace", "-f", "-s", "70000", "-e", "trace=%file,fchmod,fchown,fsetxattr,fchdir", "-o", log] + list(argv)
    e = dict(os.environ)
    e.update(env or {})
    p = subprocess.Popen(cmd, cwd=cwd, stdin=subprocess.DEVNULL, stdout=subprocess.DEVNULL, stderr=subprocess.PIPE, env=e, start_new_session=True)
    try:
        _, err = p.communicate(timeout=timeout)
        rc = p.returncode
    except subprocess.TimeoutExpired:
        import signal
        try:
            os.killpg(p.pid, signal.SIGKILL)      # strace and the traced tool
        except OSError:
            pass
        p.communicate()
        rc, err = None, b"timeout"
    findings = []
    stats = {"calls": 0, "modifying_calls": 0, "symlinks_created": 0, "chdir_seen": 0}
    try:
        data = open(log, "rb").read()
    except OSError:
        return rc, err, [("audit:no-trace", "strace wrote no log")], stats
    finally:
        try:
            os.unlink(log)
        except OSError:
            pass
    inside = False
    symlinks = set()
    root = os.path.realpath(root).encode()
    cwd_b = os.path.realpath(cwd).encode()

    def judge(name, path, text, failed):
        where = b"%s(%s)" % (name, path[:200])
        if path == b"":
            findings.append(("audit:empty-path", where.decode("latin1")))
            return
        if path.startswith(b"/"):
            findings.append(("audit:absolute-path", where.decode("latin1")))
            return
        comps = path.split(b"/")
        if b".." in comps:
            findings.append(("audit:dotdot-component", where.decode("latin1")))
            return
        comps = [c for c in comps if c not in (b"", b".")]
        for i in range(1, len(comps)):
            if b"/".join(comps[:i]) in symlinks:
                findings.append(("audit:path-through-symlink", where.decode("latin1")))
                return
        full = b"/".join(comps)
        if full in symlinks:
            follows = name in FOLLOWS_FINAL or (name in NOFOLLOW_FLAG and b"AT_SYMLINK_NOFOLLOW" not in text)
            if name in (b"open", b"openat"):
                writes = any(f in text for f in (b"O_WRONLY", b"O_RDWR", b"O_CREAT", b"O_TRUNC", b"O_APPEND"))
                follows = writes and b"O_NOFOLLOW" not in text and not (b"O_CREAT" in text and b"O_EXCL" in text)
            if follows:
                findings.append(("audit:follows-final-symlink", where.decode("latin1")))

    for line in data.split(b"\n"):
        m = LINE.match(line)
        if not m:
            continue
        name, args, ret, tail = m.group(2), m.group(3), m.group(4), m.group(5)
        stats["calls"] += 1
        strs = [unescape(x.group(1)) for x in STR.finditer(args)]
        failed = ret.startswith(b"-")
        if name == b"chdir" and not failed and strs:
            tgt = strs[0] if strs[0].startswith(b"/") else os.path.normpath(os.path.join(cwd_b if not inside else root, strs[0]))
            if not inside:
                if os.path.realpath(tgt) == root:
                    inside = True
                    stats["chdir_seen"] += 1
                continue
            findings.append(("audit:chdir-after-entering-root", "%r" % strs[0][:200]))
            continue
        if name == b"fchdir" and inside and not failed:
            # returning to a saved directory ends the audited phase
            inside = False
            continue
        if not inside:
            continue
        if name in (b"open", b"openat"):
            if strs and any(f in args for f in (b"O_WRONLY", b"O_RDWR", b"O_CREAT", b"O_TRUNC", b"O_APPEND")):
                stats["modifying_calls"] += 1
                judge(name, strs[0], args, failed)
            continue
        idxs = MODIFY.get(name)
        if idxs is None:
            continue
        if name.endswith(b"at") or name in (b"utimensat", b"renameat2"):
            if b"AT_FDCWD" not in args and strs:
                findings.append(("audit:unknown-dirfd", "%s(%s)" % (name.decode(), args[:80].decode("latin1"))))
                continue
        stats["modifying_calls"] += 1
        for i in idxs:
            if i < len(strs):
                judge(name, strs[i], args, failed)
        if name in (b"unlink", b"unlinkat", b"rename", b"renameat", b"renameat2", b"rmdir") and not failed and strs:
            symlinks.discard(b"/".join(c for c in strs[0].split(b"/") if c not in (b"", b".")))
        if name in (b"symlink", b"symlinkat") and not failed and len(strs) >= 2:
            comps = [c for c in strs[1].split(b"/") if c not in (b"", b".")]
            symlinks.add(b"/".join(comps))
            stats["symlinks_created"] += 1
    return rc, err, findings, stats
