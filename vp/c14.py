"""C14: a packer killed before its k-th output operation never leaves a file that reads as a (different) complete image."""
import os, subprocess, traceback, hashlib, signal
from . import core, build, gentree, sqfsimg
from .gentree import Node

PROP = "C14"


def make_tree(r, idx):
    bs = 4096
    t = {b"": Node("dir", 0o755)}
    if idx % 4 == 3:
        # no fragments, but xattrs: devices, directories, symlinks and block-aligned files only
        t[b"dev"] = Node("dir", 0o755, xattrs={b"security.selinux": b"system_u:object_r:device_t:s0"})
        t[b"dev/null"] = Node("cdev", 0o666, dev=(1, 3), xattrs={b"security.selinux": b"null_t"})
        t[b"dev/sda"] = Node("bdev", 0o660, dev=(8, 0), xattrs={b"trusted.x": b"y"})
        t[b"etc"] = Node("dir", 0o755, xattrs={b"user.label": b"etc"})
        t[b"etc/mtab"] = Node("slink", 0o777, target=b"/proc/mounts")
        if idx % 8 == 7:
            t[b"etc/blob"] = Node("file", 0o644, data=[("rand", idx, bs * 2)], xattrs={b"user.a": b"b"})
        return t
    if idx % 3 == 0:
        for i in range(6):
            t[b"f%d" % i] = Node("file", 0o644, data=[("rand", i, r.choice([100, 5000, 9000]))])
        t[b"d"] = Node("dir", 0o700)
        t[b"d/x"] = Node("file", 0o600, data=[("rep", b"xyz", 20000)], xattrs={b"user.k": b"v"})
        t[b"d/l"] = Node("slink", 0o777, target=b"x")
    elif idx % 3 == 1:
        for i in range(40):
            t[b"s%02d" % i] = Node("file", 0o644, data=[("rand", 100 + i, r.choice([1, 300, 2000, 4095, 4097]))])
    else:
        tr, _ = gentree.gen_tree(r, bs=bs, max_entries=30)
        for p, n in tr.items():
            if n.type in ("file", "dir", "slink", "fifo") and n.link_to is None and b"\n" not in p:
                n.uid = n.gid = 0
                if n.type != "file":
                    n.xattrs = {}
                t[p] = n
        for p in list(t):
            for par in gentree.parents(p):
                t.setdefault(par, Node("dir", 0o755))
    return t


def reader_views(B, path, oc):
    """Returns (all_fail, all_succeed, outputs)."""
    res = []
    for tool, args in (("rdsquashfs", ["-d", path]), ("rdsquashfs", ["-l", "/", path]), ("sqfs2tar", [path])):
        r = core.run_tool([B[tool]] + args, timeout=60)
        oc.inc("reader_runs")
        if r.hang:
            res.append(("hang", None))
        else:
            res.append((r.rc, hashlib.sha256(r.out).hexdigest()))
    return res


def run_input(arg):
    idx, tool, tier = arg
    oc = core.Outcome("in%d-%s" % (idx, tool), features=(idx, tool))
    try:
        B = build.build("plain")
        r = core.rng_for(PROP, "in", idx)
        tree = make_tree(r, idx)
        comp = ["gzip", "xz", "zstd", "lz4"][idx % 4]
        with core.Scratch("c14") as work:
            root = os.path.join(work, "in")
            gentree.materialise_dir(tree, root)
            out = os.path.join(work, "out.sqfs")
            if tool == "gensquashfs":
                cmd = [B["gensquashfs"], "-c", comp, "-b", "4096", "-q", "-f", "-j", "2", "-D", root, "-x"] + (["-e"] if idx % 2 else []) + [out]
                stdin = None
            else:
                tarf = os.path.join(work, "in.tar")
                subprocess.run(["/usr/bin/tar", "--sort=name", "--numeric-owner", "--xattrs", "-cf", tarf, "-C", root, "."], check=True, stderr=subprocess.DEVNULL)
                cmd = [B["tar2sqfs"], "-c", comp, "-b", "4096", "-q", "-f", "-j", "2", out]
                stdin = open(tarf, "rb").read()
            cnt = os.path.join(work, "cnt")
            res = core.run_tool(cmd, env={"VERIF_COUNT": cnt}, stdin=stdin, timeout=120)
            if res.rc != 0:
                oc.inconclusive.append("complete run failed: %s" % res.err[-200:])
                return oc
            counts = dict((l.split()[0], int(l.split()[1])) for l in open(cnt))
            K = counts["pwrite"] + counts["trunc"]
            full = open(out, "rb").read()
            full_views = reader_views(B, out, oc)
            if any(v[0] != 0 for v in full_views):
                oc.inconclusive.append("readers fail on the complete image")
                return oc
            full_model = sqfsimg.tree_model(sqfsimg.parse(full))
            positions = [(k, False) for k in range(1, K + 1)]
            if tier == "thorough":
                positions += [(k, True) for k in range(1, K + 1)]
            accepted = 0
            for k, half in positions:
                if os.path.exists(out):
                    os.unlink(out)
                res = core.run_tool(cmd, env={"VERIF_KILL": "%d%s" % (k, ":half" if half else "")}, stdin=stdin, timeout=120)
                oc.inc("crash_points")
                if res.rc != -signal.SIGKILL:
                    oc.inconclusive.append("kill point %d not reached (rc=%s)" % (k, res.rc))
                    continue
                if not os.path.exists(out):
                    oc.inc("no_file_left")
                    continue
                views = reader_views(B, out, oc)
                nfail = sum(1 for v in views if v[0] not in (0,))
                if nfail == len(views):
                    oc.inc("rejected_by_all_readers")
                    if any(v[0] == "hang" for v in views):
                        oc.violate("killed:%s:reader-hangs-on-partial-image" % tool, "k=%d of %d" % (k, K))
                    continue
                # some reader accepted it: it must be the complete, correct image
                accepted += 1
                data = open(out, "rb").read()
                detail = "%s input %d killed before output operation %d%s of %d; reader results %r" % (tool, idx, k, " (half)" if half else "", K, [v[0] for v in views])
                if nfail != 0:
                    oc.violate("killed:%s:readers-disagree-on-partial-image" % tool, detail, {"partial.sqfs": data[:1 << 20]})
                    continue
                if [v[1] for v in views] != [v[1] for v in full_views]:
                    oc.violate("killed:%s:partial-image-reads-differently" % tool, detail, {"partial.sqfs": data[:1 << 20]})
                    continue
                bu = sqfsimg.parse(full, want_content=False).sb["bytes_used"]
                if len(data) < bu or data[:bu] != full[:bu]:
                    oc.violate("killed:%s:accepted-partial-image-is-not-the-complete-image" % tool,
                               detail + "; first difference at byte %d of bytes_used %d (file has %d bytes)" % (
                                   next((i for i in range(min(len(data), bu)) if data[i] != full[i]), min(len(data), bu)), bu, len(data)), {"partial.sqfs": data[:1 << 20]})
                    continue
                try:
                    m = sqfsimg.tree_model(sqfsimg.parse(data))
                    if m != full_model:
                        oc.violate("killed:%s:partial-image-decodes-differently" % tool, detail, {"partial.sqfs": data[:1 << 20]})
                    else:
                        oc.inc("accepted_and_complete")
                except sqfsimg.ParseError as e:
                    oc.violate("killed:%s:accepted-by-readers-but-unparseable" % tool, detail + " " + str(e)[:100], {"partial.sqfs": data[:1 << 20]})
            oc.sample = {"tool": tool, "input": idx, "comp": comp, "output_operations": K, "accepted_prefixes": accepted}
    except Exception:
        oc.inconclusive.append("harness exception: %s" % traceback.format_exc()[-800:])
    return oc


def main(tier):
    rep = core.Report(PROP, tier, "fault_enumeration",
                      "for each (input, packer) the number K of output-file operations (pwrite/ftruncate) is measured, then the packer is killed with SIGKILL right before "
                      "operation k for every k in 1..K (thorough: also after half of each pwrite); the file left behind is given to rdsquashfs -d, -l / and sqfs2tar: "
                      "all must fail, or all succeed with output, tree and contents identical to the completed image; distinct = (input, packer)")
    build.build("plain")
    n = 12 if tier == "quick" else 40
    items = [(i, t, tier) for i in range(n) for t in ("gensquashfs", "tar2sqfs")]
    for oc in core.pmap(run_input, items):
        rep.add(oc)
    rep.extra["inputs_x_packers"] = rep.evaluations
    rep.evaluations = rep.counters.get("crash_points", 0)
    rep.exhaustive = True
    rep.required_nonzero = ["crash_points", "rejected_by_all_readers", "reader_runs"]
    rep.assumptions = ["crash = SIGKILL between two output-file system calls; the page cache is not lost (no power failure model)"]
    return rep.finish()
