"""C05: reading an untrusted image never corrupts memory, hangs or aborts.
Engine 1: structure-aware field mutation of valid images built by the independent writer (uncompressed metadata);
Engine 1b: byte/superblock mutation of tool-written compressed images; Engine 3: CLI replay under ASan/UBSan with a watchdog."""
import os, struct, traceback, hashlib, random
from . import core, build, gentree, sqfsimg, views
from .gentree import Node

PROP = "C05"
WATCHDOG = 20


def base_trees():
    bs = 4096
    out = []
    t = {b"": Node("dir", 0o755), b"f": Node("file", 0o644, data=[("rand", 1, 5000)], xattrs={b"user.a": b"b"}), b"e": Node("file", 0o600, data=[]),
         b"d": Node("dir", 0o700, uid=5, gid=6), b"d/s": Node("slink", 0o777, target=b"../f"), b"d/c": Node("cdev", 0o600, dev=(1, 2)),
         b"d/b": Node("bdev", 0o600, dev=(8, 1)), b"d/p": Node("fifo", 0o644), b"d/k": Node("sock", 0o644), b"d/h": Node("file", link_to=b"f"),
         b"z": Node("file", 0o644, data=[("zero", 8192), ("bytes", b"tail")])}
    out.append(("all-types", t, {}))
    t = {b"": Node("dir", 0o755)}
    for i in range(40):
        t[b"s%02d" % i] = Node("file", 0o644, data=[("rand", i, 100 + 30 * i)])
    out.append(("fragments", t, {}))
    t = {b"": Node("dir", 0o755), b"big": Node("dir", 0o755)}
    for i in range(300):
        t[b"big/%03d" % i] = Node("fifo", 0o600)
    out.append(("big-dir", t, {}))
    t = {b"": Node("dir", 0o755)}
    big = b"V" * 200
    for i in range(12):
        t[b"x%02d" % i] = Node("file", 0o644, data=[("bytes", b"%d" % i)], xattrs={b"user.k%d" % (i % 3): big, b"trusted.t": b"12345678", b"security.s": bytes(range(9))})
    t[b"xd"] = Node("dir", 0o755, xattrs={b"user.dir": b"1"})
    t[b"xl"] = Node("slink", 0o777, target=b"t", xattrs={b"trusted.l": b"2"})
    out.append(("xattrs-ool", t, {}))
    t = {b"": Node("dir", 0o755)}
    p = b""
    for i in range(12):
        p = p + b"/d" if p else b"d"
        t[p] = Node("dir", 0o755)
        t[p + b"/f"] = Node("file", 0o644, data=[("rep", b"abc", 5000)])
    out.append(("deep", t, {}))
    t = {b"": Node("dir", 0o755), b"a": Node("file", 0o644, data=[("rep", b"text ", 3 * bs + 5)]), b"b": Node("file", 0o644, data=[("rand", 3, 2 * bs)]),
         b"c": Node("file", 0o644, data=[("zero", bs), ("rep", b"q", bs), ("zero", bs)])}
    for comp in (1, 4, 5, 6, 2):
        out.append(("compressed-data-%s" % sqfsimg.COMP_NAMES[comp], t, {"comp": comp, "compress_data": True}))
    out.append(("no-frags-no-export", dict(out[0][1]), {"use_frags": False, "exportable": False}))
    t = {b"": Node("dir", 0o755)}
    for d in range(4):
        t[b"d%d" % d] = Node("dir", 0o755)
        for i in range(500):
            t[b"d%d/%s%04d" % (d, b"n" * 40, i)] = Node("slink", 0o777, target=b"t" * 30) if i % 2 else Node("fifo", 0o600)
    out.append(("large-tables", t, {}))
    # extended directories with an index: many headers (inode block changes, > 256 entries) and first names of many lengths
    t = {b"": Node("dir", 0o755)}
    for d in range(3):
        t[b"ix%d" % d] = Node("dir", 0o755)
        for i in range(600):
            L = 1 + (i * 7 + d * 3) % 140
            t[b"ix%d/%04d%s" % (d, i, b"n" * L)] = Node("slink", 0o777, target=b"t" * (i % 90)) if i % 3 else Node("fifo", 0o600)
    out.append(("indexed-dirs", t, {"with_index": True}))
    # files smaller than a block stored as a block of their own (no fragments): block words vs. file size
    t = {b"": Node("dir", 0o755), b"a": Node("file", 0o644, data=[("bytes", b"0123456789")]), b"b": Node("file", 0o644, data=[("rand", 1, 300)]),
         b"c": Node("file", 0o644, data=[("rand", 2, 4095)]), b"d": Node("file", 0o644, data=[("bytes", b"x")])}
    out.append(("small-files-no-frags", t, {"use_frags": False}))
    return out


def mutation_values(orig, size, r, name=""):
    mx = (1 << (8 * size)) - 1
    if name.endswith("name_size") and ".index" in name:
        # the reader grows its buffer in steps: sweep the sizes around the initial capacity
        return sorted(set(range(96, 144)) - {orig})
    vals = {0, 1, mx, mx - 1, (orig + 1) & mx, (orig - 1) & mx, 1 << (8 * size - 1), orig ^ (1 << (8 * size - 1)), r.getrandbits(8 * size)}
    if size >= 4:
        vals |= {0x7FFFFFFF & mx, 0x80000000 & mx, (orig + 8192) & mx, (orig * 2) & mx, 0xFFFF & mx, 0x10000 & mx}
    vals.discard(orig)
    return sorted(vals)


def special_images(r):
    """Relational edits: loops, shared directory inodes, out-of-range fragment references, truncation."""
    out = []

    def retarget(img, fmap, info, dirpath, entry_idx, target):
        # single-header directory: point entry #entry_idx at inode `target`
        f = {n: (o, s) for n, o, s in fmap.fields}
        pre = "dir[%s]." % sqfsimg._nm(dirpath)
        hdr_start = [v for n, v in f.items() if n.startswith(pre + "start@")][0]
        hdr_num = [v for n, v in f.items() if n.startswith(pre + "inode_number@")][0]
        offs = sorted((int(n.rsplit("@", 1)[1]), v) for n, v in f.items() if n.startswith(pre + "ent.offset@"))
        deltas = sorted((int(n.rsplit("@", 1)[1]), v) for n, v in f.items() if n.startswith(pre + "ent.inode_delta@"))
        ref = info["ref"][target]
        refnum = struct.unpack_from("<I", img, hdr_num[0])[0]
        cur_start = struct.unpack_from("<I", img, hdr_start[0])[0]
        if (ref >> 16) != cur_start:
            return None
        img = sqfsimg.patch(img, offs[entry_idx][1][0], 2, ref & 0xFFFF)
        img = sqfsimg.patch(img, deltas[entry_idx][1][0], 2, (info["number"][target] - refnum) & 0xFFFF)
        return img
    # directory that lists itself / its parent
    t = {b"": Node("dir", 0o755), b"a": Node("dir", 0o755), b"a/x": Node("dir", 0o755), b"b": Node("file", 0o644, data=[("bytes", b"hi")])}
    img, fmap, info = sqfsimg.build_image(t)
    for name, (d, idx, tgt) in {"root-lists-itself": (b"", 0, b""), "child-lists-parent": (b"a", 0, b"a"), "grandchild-lists-root": (b"a", 0, b"")}.items():
        m = retarget(img, fmap, info, d, idx, tgt)
        if m:
            out.append(("loop:" + name, m))
    # nested shared directory inodes (DAG): every level has entries a and b that reference the same child
    for depth in (4, 12, 22, 26, 40):
        t = {b"": Node("dir", 0o755)}
        p = b""
        for i in range(depth):
            a = p + b"/a" if p else b"a"
            b_ = p + b"/b" if p else b"b"
            t[a] = Node("dir", 0o755)
            t[b_] = Node("dir", 0o755)
            p = a
        t[p + b"/leaf"] = Node("file", 0o644, data=[("bytes", b"x")])
        if depth % 4 == 2:
            for q, nn in t.items():
                if nn.type == "dir" and q:
                    nn.xattrs = {b"user.ext": b"1"}      # extended directory inodes
        img, fmap, info = sqfsimg.build_image(t)
        m = img
        p = b""
        okk = True
        for i in range(depth):
            a = p + b"/a" if p else b"a"
            m2 = retarget(m, fmap, info, p, 1, a)
            if m2 is None:
                okk = False
                break
            m = m2
            p = a
        if okk:
            out.append(("dag:shared-dir-depth-%d" % depth, m))
    # inode table that ends inside a record: every inode kind stored last, its record cut 1..n bytes short
    bt = base_trees()
    for tname, tree in (("all-types", bt[0][1]), ("xattrs-ool", bt[3][1])):
        tree = dict(tree)
        if tname == "all-types":
            tree[b"d/xs"] = Node("slink", 0o777, target=b"../somewhere", xattrs={b"user.l": b"1"})
            tree[b"d/xc"] = Node("cdev", 0o600, dev=(4, 5), xattrs={b"user.c": b"1"})
            tree[b"d/xp"] = Node("fifo", 0o600, xattrs={b"user.p": b"1"})
            tree[b"d/xd"] = Node("dir", 0o700, xattrs={b"user.d": b"1"})
        for q in sorted(tree):
            if tree[q].link_to is not None or (tname == "xattrs-ool" and q not in (b"xl", b"xd", b"x00")):
                continue
            for k in (1, 2, 3, 4, 5, 8, 12, 16, 17, 24, 33):
                try:
                    img, fmap, info = sqfsimg.build_image(tree, last_inode=q, cut_inode_tail=k)
                except Exception:
                    continue
                out.append(("inode-table-ends-inside-record:%s:%s:-%d" % (tree[q].type, "ext" if tree[q].xattrs else "basic", k), img))
    # valid images whose xattr key+value lengths sweep the points where the decimal length prefix of a PAX record grows
    for lo, hi in ((0, 130), (880, 1010), (9960, 10010)):
        t = {b"": Node("dir", 0o755)}
        for L in range(lo, hi):
            t[b"x%05d" % L] = Node("file", 0o644, data=[], xattrs={b"user.ka": b"v" * L, b"user.kb": b"w" * L, b"user.kc": b"x" * L, b"user.second": b"y" * L})
        out.append(("xattr-value-lengths-%d-%d" % (lo, hi), sqfsimg.build_image(t)[0]))
    # valid images with very deep nesting: recursion over the directory tree must be bounded (error) or survive
    out.append(("deep-chain-3000", sqfsimg.chain_image(3000)))
    out.append(("deep-chain-100000", sqfsimg.chain_image(100000)))
    # a file below 150 directories with 60000 byte names: a 9 MB path for whoever builds it on the stack
    out.append(("deep-long-names", sqfsimg.chain_image(150, name=b"n" * 60000, leaf_file=True)))
    # entry names with NUL bytes inside (the name size field says more than strlen())
    t = {b"": Node("dir", 0o755), b"a": Node("file", 0o644, data=[("bytes", b"A")]), b"b": Node("dir", 0o755), b"b/c": Node("file", 0o644, data=[("bytes", b"C")]),
         b"zzz": Node("file", 0o644, data=[("bytes", b"Z")])}
    for L in (2, 9, 300):
        out.append(("nul-in-names-%d" % L, sqfsimg.build_image(t, raw_names={b"a": b"a" + bytes(L), b"b": b"b\0x", b"b/c": b"c" + bytes(L)})[0]))
    # truncation at structure boundaries and random offsets
    t0 = base_trees()[0][1]
    img, fmap, info = sqfsimg.build_image(t0)
    cuts = {96, info["inode_table"], info["inode_table"] + 1, info["dir_table"], info["bytes_used"] - 1, info["bytes_used"] - 8, len(img) // 2}
    for c in sorted(cuts):
        out.append(("truncated@%d" % c, img[:c]))
    out.append(("empty", b""))
    out.append(("only-magic", img[:4]))
    out.append(("zero-superblock", bytes(96) + img[96:]))
    return out


_base_cache = {}


def materialise(data):
    """Images travel to the workers as recipes ("P", base name, offset, size, value); bytes pass through."""
    if isinstance(data, (bytes, bytearray)):
        return data
    _, bname, off, size, v = data
    if bname not in _base_cache:
        bt = {b[0]: b for b in base_trees()}
        _base_cache[bname] = sqfsimg.build_image(bt[bname][1], **bt[bname][2])[0]
    return sqfsimg.patch(_base_cache[bname], off, size, v)


def reader_ops(B, img_path, valid_path, work, paths, r, full):
    """List of (name, argv, needs_scratch)."""
    ops = [("describe", [B["rdsquashfs"], "-d", img_path]),
           ("sqfs2tar", [B["sqfs2tar"], img_path]),
           ("unpack", [B["rdsquashfs"], "-u", "/", "-p", os.path.join(work, "unp"), "-q", img_path])]
    p = r.choice(paths)
    extra = [("list", [B["rdsquashfs"], "-l", b"/" + r.choice(paths), img_path]), ("stat", [B["rdsquashfs"], "-s", b"/" + p, img_path]),
             ("cat", [B["rdsquashfs"], "-c", b"/" + p, img_path]), ("xattr", [B["rdsquashfs"], "-x", b"/" + p, img_path]),
             ("sqfs2tar-gzip", [B["sqfs2tar"], "-c", "gzip", img_path]), ("sqfsdiff-a", [B["sqfsdiff"], "-a", img_path, "-b", valid_path]),
             ("sqfsdiff-b", [B["sqfsdiff"], "-a", valid_path, "-b", img_path]), ("unpack-attrs", [B["rdsquashfs"], "-u", "/", "-p", os.path.join(work, "unp"), "-q", "-C", "-T", "-X", img_path]),
             ("sqfs2tar-subdir", [B["sqfs2tar"], "-d", r.choice(paths) or b"d", img_path]),
             ("sqfsdiff-extract", [B["sqfsdiff"], "-a", img_path, "-b", valid_path, "-e", os.path.join(work, "unp", "ex")])]
    if full:
        ops += extra
    else:
        ops += r.sample(extra, 2)
    return ops


def kind_of(fname):
    import re
    k = re.sub(r"\[[^\]]*\]", "[]", fname)
    k = re.sub(r"@\d+", "", k)
    k = re.sub(r"\d+$", "", k)
    return k


def run_walk_batch(arg):
    """One reader_hist batch process; it forks one child per image: the library driven the way the tools drive it, all data APIs."""
    batch_id, items, tier = arg
    oc = core.Outcome("walk-%d" % batch_id, features=("walk", batch_id))
    try:
        exe = build.build_harness("asan", "reader_hist", [os.path.join(core.VERIF, "harness", "reader_hist.c")],
                                  extra_cflags=["-I" + os.path.join(core.REPO, "include")])
        with core.Scratch("c05w") as work:
            names = {}
            lst = []
            for i, (name, data) in enumerate(items):
                data = materialise(data)
                ip = os.path.join(work, "m%05d.sqfs" % i)
                with open(ip, "wb") as f:
                    f.write(data)
                names[ip] = (name, data)
                lst.append(ip)
            res = core.run_tool([exe, "batch", str(WATCHDOG)], stdin=("\n".join(lst) + "\n").encode(), timeout=WATCHDOG * len(items) + 120,
                                binary="libsquashfs-reader")
            # stderr is segmented by "=== <path>" markers
            segs = {}
            cur = None
            for line in res.err.split(b"\n"):
                if line.startswith(b"=== "):
                    cur = line[4:].decode()
                    segs[cur] = []
                elif cur is not None:
                    segs[cur].append(line)
            seen = 0
            for line in res.out.decode(errors="replace").split("\n"):
                p = line.split()
                if len(p) != 4 or p[0] != "RES":
                    continue
                seen += 1
                ip, kind, code = p[1], p[2], int(p[3])
                name, data = names[ip]
                fk = kind_of(name.split(":", 1)[1].split("=")[0]) if ":" in name else name
                oc.inc("walk_runs")
                err = b"\n".join(segs.get(ip, []))
                san, _ = core.parse_sanitizer(err, "libsquashfs-reader")
                if kind == "hang":
                    # two-step rule: alone, with 5x the budget
                    r2 = core.run_tool([exe, ip, "shared"], stdin=b"W\n", timeout=WATCHDOG * 5, binary="libsquashfs-reader")
                    if r2.hang:
                        oc.violate("libsquashfs-reader:hang:%s" % fk, name, {"image.sqfs": data[:1 << 20]})
                elif san:
                    if "rss-limit" in san or "allocation-size-too-big" in san or "out-of-memory" in san:
                        san = "libsquashfs-reader:unbounded-resources:%s" % fk
                    oc.violate(san, name, {"image.sqfs": data[:1 << 20], "stderr.txt": err[:20000]})
                elif kind == "signal":
                    oc.violate("libsquashfs-reader:signal-%d:%s" % (code, fk), name, {"image.sqfs": data[:1 << 20], "stderr.txt": err[:20000]})
                elif kind == "exit" and code == 10:
                    oc.inc("walk_rejected")
                elif kind == "exit" and code == 0:
                    oc.inc("walk_accepted")
                else:
                    oc.violate("libsquashfs-reader:exit-%d:%s" % (code, fk), name, {"image.sqfs": data[:1 << 20], "stderr.txt": err[:20000]})
            if seen != len(items):
                oc.inconclusive.append("batch runner answered %d of %d images (rc=%s)" % (seen, len(items), res.rc))
            oc.sample = {"engine": "walk", "first": items[0][0], "images": len(items)}
    except Exception:
        oc.inconclusive.append("harness exception: %s" % traceback.format_exc()[-800:])
    return oc


def run_batch(arg):
    batch_id, engine, items, tier = arg
    oc = core.Outcome("%s-%d" % (engine, batch_id), features=(engine, batch_id))
    try:
        B = build.build("asan")
        r = core.rng_for(PROP, engine, batch_id)
        with core.Scratch("c05") as work:
            valid = os.path.join(work, "valid.sqfs")
            vimg, _, _ = sqfsimg.build_image(base_trees()[0][1])
            with open(valid, "wb") as f:
                f.write(vimg)
            for name, data, paths in items:
                data = materialise(data)
                ip = os.path.join(work, "m.sqfs")
                with open(ip, "wb") as f:
                    f.write(data)
                oc.inc("images")
                oc.inc("images:" + engine)
                full = engine == "special"
                for opname, argv in reader_ops(B, ip, valid, work, paths or [b""], r, full):
                    if name == "deep-chain-100000" and opname.startswith("sqfs2tar"):
                        continue     # takes minutes (the path of every entry is re-assembled): bounded, but not worth the time here
                    if name == "deep-long-names" and opname not in ("sqfsdiff-extract", "describe", "sqfs2tar"):
                        continue     # (unpack needs half a minute just to learn that the host refuses 60000 byte names)
                    up = os.path.join(work, "unp")
                    if opname.startswith("unpack"):
                        views.force_rmtree(up)
                        os.makedirs(up, exist_ok=True)
                    res = core.run_tool(argv, timeout=WATCHDOG, stdout_file=os.devnull if opname.startswith("sqfs2tar") else None)
                    oc.inc("runs")
                    oc.inc("op:" + opname)
                    if res.hang:
                        # two-step rule: re-run once with 5x the budget
                        res2 = core.run_tool(argv, timeout=WATCHDOG * 5, stdout_file=os.devnull)
                        if res2.hang:
                            cls = name.split(":")[0] if ":" in name else "field"
                            oc.violate("%s:hang:%s" % (os.path.basename(argv[0]), cls if engine == "special" else engine), "%s on %s" % (opname, name), {"image.sqfs": data[:1 << 20]})
                            continue
                        res = res2
                    if res.san:
                        key = res.san
                        if "rss-limit" in key or "allocation-size-too-big" in key or "out-of-memory" in key:
                            key = "%s:unbounded-resources:%s" % (os.path.basename(argv[0]), name.split(":")[0] if engine == "special" else engine)
                        oc.violate(key, "%s on %s" % (opname, name), {"image.sqfs": data[:1 << 20], "stderr.txt": res.err[:20000]})
                    elif res.rc == 0:
                        oc.inc("accepted")
                    else:
                        oc.inc("rejected")
                views.force_rmtree(os.path.join(work, "unp"))
            oc.sample = {"engine": engine, "batch": batch_id, "first": items[0][0] if items else None, "images": len(items)}
    except Exception:
        oc.inconclusive.append("harness exception: %s" % traceback.format_exc()[-800:])
    return oc


def main(tier):
    rep = core.Report(PROP, tier, "exploration",
                      "engine 1: every on-disk field (superblock, inode, directory header/entry, table entry, block word, xattr field, metadata block header) of valid images built by the "
                      "independent writer is overwritten with 0, 1, max, max-1, +-1, sign bit and random values (quick: seeded sample; thorough: all); engine 1b: byte and superblock mutations of "
                      "tool-written compressed images; special images: directory loops, nested shared directory inodes, truncation at structure boundaries; every image is given to "
                      "rdsquashfs -d/-l/-s/-c/-x/-u, sqfs2tar (plain, gzip, --subdir) and sqfsdiff in both positions under ASan+UBSan with a watchdog (hang = no exit within 5x budget on re-run); "
                      "distinct = distinct mutated (base image, field name) pairs")
    B = build.build("asan")
    r = core.rng_for(PROP, "plan")
    per_batch = 25
    budget = 500 if tier == "quick" else 30000
    # engine 1
    cand = []
    fields_seen = set()
    for bname, tree, kw in base_trees():
        img, fmap, info = sqfsimg.build_image(tree, **kw)
        paths = [p for p in tree]
        for fname, off, size in fmap.fields:
            if size > 8:
                continue
            orig = int.from_bytes(img[off:off + size], "little")
            for v in mutation_values(orig, size, r, fname):
                cand.append((bname, fname, off, size, v))
    rep.extra["field_mutations_available"] = len(cand)
    # in-process walk: quick = up to 3 instances of every field kind per base with all values; thorough = everything
    bykind = {}
    for c in cand:
        bykind.setdefault((c[0], kind_of(c[1])), {}).setdefault(c[1], []).append(c)
    wcand = []
    for (bname, kind), inst in sorted(bykind.items()):
        names = sorted(inst)
        if tier == "quick" and len(names) > 1:
            names = r.sample(names, 1)
        for nm in names:
            wcand += inst[nm]
    rep.extra["field_kinds"] = len(bykind)
    rep.extra["walk_candidates_before_sampling"] = len(wcand)
    if tier == "quick" and len(wcand) > 9000:
        # stratified: the off-by-one values of the chosen instance of every field kind are always kept
        base_img = {}

        def near(c):
            bname, fname, off, size, v = c
            if bname not in base_img:
                bt1 = {b[0]: b for b in base_trees()}
                base_img[bname] = sqfsimg.build_image(bt1[bname][1], **bt1[bname][2])[0]
            orig = int.from_bytes(base_img[bname][off:off + size], "little")
            mx = (1 << (8 * size)) - 1
            return v in ((orig + 1) & mx, (orig - 1) & mx)
        keep = [c for c in wcand if near(c)]
        rest = [c for c in wcand if not near(c)]
        wcand = keep + r.sample(rest, max(0, 9000 - len(keep)))
        rep.extra["walk_off_by_one_images"] = len(keep)
    rep.extra["walk_images"] = len(wcand)
    witems = []
    for bname, fname, off, size, v in wcand:
        witems.append(("%s:%s=%#x" % (bname, fname, v), ("P", bname, off, size, v)))
    wbatches = [(i, witems[k:k + 400], tier) for i, k in enumerate(range(0, len(witems), 400))]
    for oc in core.pmap(run_walk_batch, wbatches):
        rep.add(oc)
    del witems, wbatches
    if len(cand) > budget:
        cand = r.sample(cand, budget)
    rep.exhaustive = False
    items = []
    bt = {b[0]: b for b in base_trees()}
    for bname, fname, off, size, v in cand:
        fields_seen.add((bname, fname.split("@")[0]))
        items.append(("%s:%s=%#x" % (bname, fname, v), ("P", bname, off, size, v), list(bt[bname][1])))
    batches = [(i, "field", items[k:k + per_batch], tier) for i, k in enumerate(range(0, len(items), per_batch))]
    # engine 1b: tool-written compressed images, byte mutations
    with core.Scratch("c05b") as work:
        root = os.path.join(work, "in")
        tree = base_trees()[0][1]
        t2 = {p: n for p, n in tree.items()}
        t2[b"text"] = Node("file", 0o644, data=[("words", 7, 3 * 4096 + 100)])
        for i in range(40):
            t2[b"d/many%02d" % i] = Node("slink", 0o777, target=b"target-%d" % i) if i % 4 else Node("file", 0o644, data=[("bytes", b"%d" % i)], xattrs={b"user.n": b"%d" % i})
        gentree.materialise_dir(t2, root)
        titems = []
        stream_items = []
        for comp in ("gzip", "xz", "lzma", "lz4", "zstd"):
            out = os.path.join(work, "t.sqfs")
            res = core.run_tool([B["gensquashfs"], "-q", "-f", "-c", comp, "-b", "4096", "-x", "-e", "-D", root, out], timeout=120)
            if res.rc != 0:
                continue
            data = open(out, "rb").read()
            used = struct.unpack_from("<Q", data, 40)[0]
            # engine 1c: the first bytes of every compressed stream (metadata blocks, data and fragment blocks): codec headers,
            # property bytes, embedded uncompressed-size fields
            try:
                im = sqfsimg.parse(data, want_content=False)
                streams = [(pos + 2, stored) for pos, (hdr, stored, unc) in sorted(im.meta_blocks.items()) if not hdr & 0x8000]
                for pth, ino in im.tree.items():
                    o = getattr(ino, "blocks_start", None)
                    for w in getattr(ino, "block_words", None) or []:
                        if w & 0xFFFFFF and not w & (1 << 24):
                            streams.append((o, w & 0xFFFFFF))
                        o += w & 0xFFFFFF
                for fr in (im.frags or []):
                    st, ln = fr[0], fr[1]
                    if not ln & (1 << 24):
                        streams.append((st, ln & 0xFFFFFF))
            except Exception:
                streams = []
            rep.counters["compressed_streams:" + comp] = len(streams)
            for st, ln in streams:
                for o in range(min(16, ln)):
                    orig = data[st + o]
                    for v in sorted({0, 0xFF, orig ^ 0x80, (orig + 1) & 0xFF, (orig - 1) & 0xFF} - {orig}):
                        b = bytearray(data)
                        b[st + o] = v
                        stream_items.append(("tool-%s:stream@%d+%d=%#x" % (comp, st, o, v), bytes(b)))
            n = 60 if tier == "quick" else 3000
            for k in range(n):
                b = bytearray(data)
                mode = k % 3
                if mode == 0:
                    pos = r.randrange(0, 96)
                    b[pos] = r.getrandbits(8)
                elif mode == 1:
                    pos = r.randrange(96, used)
                    b[pos] ^= 1 << r.randrange(8)
                else:
                    pos = r.randrange(96, used - 4)
                    b[pos:pos + 4] = struct.pack("<I", r.choice([0, 0xFFFFFFFF, 0x7FFFFFFF, r.getrandbits(32)]))
                titems.append(("tool-%s:byte@%d" % (comp, pos), bytes(b), list(tree)))
    batches += [(i, "bytes", titems[k:k + per_batch], tier) for i, k in enumerate(range(0, len(titems), per_batch))]
    rep.extra["stream_header_images"] = len(stream_items)
    for oc in core.pmap(run_walk_batch, [(10000 + i, stream_items[k:k + 200], tier) for i, k in enumerate(range(0, len(stream_items), 200))]):
        rep.add(oc)
    cli_streams = r.sample(stream_items, min(len(stream_items), 120 if tier == "quick" else 3000))
    batches += [(5000 + i, "bytes", [(n_, d_, list(tree)) for n_, d_ in cli_streams[k:k + per_batch]], tier) for i, k in enumerate(range(0, len(cli_streams), per_batch))]
    del stream_items
    sp = [(n, d, [b"", b"a", b"b", b"a/a", b"f", b"d"]) for n, d in special_images(r)]
    batches += [(i, "special", sp[k:k + 4], tier) for i, k in enumerate(range(0, len(sp), 4))]
    spw = [(n_, d_) for n_, d_, _ in sp if n_ not in ("deep-chain-100000", "deep-long-names")]
    for oc in core.pmap(run_walk_batch, [(20000 + i, spw[k:k + 40], tier) for i, k in enumerate(range(0, len(spw), 40))]):
        rep.add(oc)
    for oc in core.pmap(run_batch, batches):
        rep.add(oc)
    rep.evaluations = rep.counters.get("runs", 0) + rep.counters.get("walk_runs", 0)
    rep.distinct_override = len(fields_seen)
    rep.extra["images"] = rep.counters.get("images", 0)
    rep.extra["distinct_fields_mutated"] = len(fields_seen)
    rep.required_nonzero = ["images:field", "images:bytes", "images:special", "accepted", "rejected", "op:unpack", "op:sqfs2tar", "op:describe", "walk_runs", "walk_accepted", "walk_rejected"]
    rep.assumptions = ["metadata of the structured images is stored uncompressed (0x8000 headers) so field offsets are exact; compressed metadata is reached through byte mutation only",
                       "a clean ASan/UBSan run is not memory safety: red zones miss far out-of-bounds accesses"]
    return rep.finish()
