"""C10: reader answers depend only on image and query, never on earlier queries."""
import os, traceback, random
from . import core, build, gentree, sqfsimg, c05
from .gentree import Node

PROP = "C10"


def harness():
    return build.build_harness("asan", "reader_hist", [os.path.join(core.VERIF, "harness", "reader_hist.c")],
                               extra_cflags=["-I" + os.path.join(core.REPO, "include")])


def catalogue(im, r, bs):
    """Self-contained queries (text lines) for a parsed image, valid and invalid variants."""
    q = []
    base = im.sb["inode_table"]
    refs = list(im.inodes_scan)
    files = [(ref, ino) for ref, ino in im.inodes_scan.items() if ino.base == sqfsimg.T_FILE]
    dirs = [(ref, ino) for ref, ino in im.inodes_scan.items() if ino.base == sqfsimg.T_DIR]
    for ref in refs:
        q.append("I %d" % ref)
    for ref in r.sample(refs, min(len(refs), 12)):
        q.append("I %d" % (ref + 1))                       # middle of a record
        q.append("I %d" % ((ref & ~0xFFFF) | 9000))         # offset beyond the block
        q.append("I %d" % (ref + (8194 << 16)))            # next block
    q.append("I %d" % ((1 << 40) | 5))
    for ref, ino in dirs:
        q.append("L %d" % ref)
    for ref, ino in dirs[:12]:
        q.append("O %d" % ref)                               # iterator, every sub directory opened twice
    for ref, ino in files[:40]:
        q.append("L %d" % ref)                               # not a directory
        size = ino.size
        q.append("S %d" % ref)
        q.append("F %d" % ref)
        for off, n in ((0, 1), (0, size), (size // 2, bs), (max(0, size - 1), 10), (size, 5), (bs - 1, 2), (bs, bs), (bs + 1, 3 * bs), (size + 100, 1), (1, 70000)):
            q.append("R %d %d %d" % (ref, off, n))
        nb = len(ino.block_words)
        for i in sorted(set([0, 1, nb - 1, nb, nb + 5])):
            if i >= 0:
                q.append("B %d %d" % (ref, i))
    for p in list(im.tree)[:60]:
        q.append("P /" + p.decode("latin1"))
        q.append("P /" + p.decode("latin1") + "/nonexistent")
    q.append("P /definitely/not/there")
    nx = len(im.xattr_sets)
    for i in list(range(min(nx, 30))) + [nx, nx + 1, 0xFFFF, 0xFFFFFFFE]:
        q.append("X %d" % i)
    # low level walk of a set with another descriptor looked up between key and value: the answer is defined by the set alone
    for i in range(min(nx, 6)):
        q.append("Y %d -1" % i)
        q.append("Y %d %d" % (i, (i + 1) % max(nx, 1)))
        q.append("Y %d %d" % (i, nx + 5))
    for i in list(range(min(len(im.ids), 20))) + [len(im.ids), 65535]:
        q.append("D %d" % i)
    for pos in sorted(im.meta_blocks):
        which = 0 if pos < im.sb["dir_table"] else 1
        if which == 1 and im.sb["frag_table"] != 0xFFFFFFFFFFFFFFFF and pos >= min(v for k, v in im.sb.items() if k in ("frag_table", "export_table", "id_table") and v != 0xFFFFFFFFFFFFFFFF):
            continue
        unc = im.meta_blocks[pos][2]
        for off, n in ((0, 16), (unc - 1, 1), (unc, 4), (9000, 4), (unc // 2, 200), (unc - 4, 40)):
            if off >= 0:
                q.append("M %d %d %d %d" % (which, pos, off, n))
        q.append("M %d %d 0 8" % (which, pos + 1))
        q.append("M %d %d 0 8" % (which, pos + 2))
    # de-duplicate, keep order
    seen = set()
    out = []
    for x in q:
        x = x.replace("\n", "?")
        if x not in seen and "\r" not in x:
            seen.add(x)
            out.append(x)
    return out


def ask(exe, img, mode, queries, timeout=600, env=None):
    res = core.run_tool([exe, img, mode], stdin=("\n".join(queries) + "\n").encode("latin1"), timeout=timeout, binary="libsquashfs-reader", env=env)
    lines = [l for l in res.out.decode("latin1").split("\n") if l and not l.startswith("DONE") and not l.startswith("DISAGREE") and not l.startswith("STREAM-AFTER-ERROR") and not l.startswith("ITER-REOPEN")]
    return res, lines


def run_image(arg):
    idx, kind, tier = arg
    oc = core.Outcome("%s-%d" % (kind, idx), features=(kind, idx))
    try:
        exe = harness()
        B = build.build("asan")
        r = core.rng_for(PROP, kind, idx)
        bs = 4096
        with core.Scratch("c10") as work:
            ip = os.path.join(work, "i.sqfs")
            if kind in ("tool", "lzma-size"):
                comp = ["gzip", "xz", "lzma", "lz4", "zstd"][idx % 5] if kind == "tool" else "lzma"
                tree, _ = gentree.gen_tree(r, bs=bs, max_entries=40, want=("xattr", "links"))
                for p, n in tree.items():
                    if n.uid == 0xFFFFFFFF:
                        n.uid = 1
                    if n.gid == 0xFFFFFFFF:
                        n.gid = 1
                for i in range(150):
                    tree[b"many/%03d" % i] = Node("file", 0o644, data=[("rand", i, 30 + i)])
                tree[b"many"] = Node("dir", 0o755)
                tree[b"holes"] = Node("file", 0o644, data=[("rep", b"head", bs), ("zero", 2 * bs), ("rep", b"mid", bs), ("zero", bs), ("rep", b"tail", 100)])
                tree[b"hole-only"] = Node("file", 0o644, data=[("zero", 3 * bs)])
                root = os.path.join(work, "in")
                gentree.materialise_dir(tree, root)
                res = core.run_tool([B["gensquashfs"], "-q", "-c", comp, "-b", str(bs), "-x", "-k", "-D", root, ip], timeout=300)
                if res.rc != 0:
                    oc.inconclusive.append("pack failed")
                    return oc
                data = open(ip, "rb").read()
                im = sqfsimg.parse(data)
                if kind == "lzma-size":
                    # damaged tool image: the uncompressed-size field in the LZMA header of metadata blocks claims more than the
                    # stream holds; what lies behind the real end must not depend on what was decompressed before
                    n = 0
                    for pos, (hdr, stored, unc) in sorted(im.meta_blocks.items()):
                        if not hdr & 0x8000 and unc < 8192 and (n + idx) % 2 == 0:
                            data = sqfsimg.patch(data, pos + 2 + 5, 8, 8192 if idx % 3 else unc + 100)
                        n += 1
                    with open(ip, "wb") as fh:
                        fh.write(data)
                    oc.notes.append("damaged: lzma size fields")
            else:
                # damaged image: a field mutation of a writer image; the catalogue comes from the valid original
                bt = c05.base_trees()
                bname, tree, kw = bt[idx % len(bt)]
                if idx % 7 in (3, 5):
                    # the same-location damage below needs at least two files with data blocks
                    multi = [t for t in bt if t[0] in ("deep", "small-files-no-frags") or t[0].startswith("compressed-data-")]
                    bname, tree, kw = multi[(idx // 7) % len(multi)]
                img, fmap, info = sqfsimg.build_image(tree, **kw)
                im = sqfsimg.parse(img)
                cands = [f for f in fmap.fields if f[2] <= 8 and not f[0].startswith("sb.magic")]
                data = img
                muts = []
                for _ in range(r.choice([1, 1, 2, 3])):
                    fname, off, size = r.choice(cands)
                    orig = int.from_bytes(data[off:off + size], "little")
                    v = r.choice(c05.mutation_values(orig, size, r))
                    data = sqfsimg.patch(data, off, size, v)
                    muts.append("%s=%#x" % (fname, v))
                if idx % 5 == 1:
                    # a fragment table entry whose block cannot be loaded: location beyond the image or an impossible size word
                    fr = [(n, o, sz) for n, o, sz in fmap.fields if n.startswith("frag[")]
                    if fr:
                        n, o, sz = r.choice(fr)
                        if r.random() < 0.5:
                            data = sqfsimg.patch(data, o, 8, len(img) + r.choice([0, 1, 4096, 1 << 40]))
                        else:
                            data = sqfsimg.patch(data, o + 8, 4, r.choice([0x00FFFFFF, 0x01FFFFFF, 1, (1 << 24) | 1]))
                        muts.append("%s damaged" % n)
                if idx % 7 in (3, 5):
                    # two inodes referencing the same data location; the second one with its own size word, with the size word of the
                    # first, or with that word and the "stored uncompressed" bit / a size bit flipped (what is cached for one location
                    # must not be handed out for another size word)
                    f = {n: (o, s) for n, o, s in fmap.fields}
                    bw = sorted(n[:-len(".blockword0")] for n in f if n.endswith(".blockword0") and n[:-len(".blockword0")] + ".blocks_start" in f)
                    if len(bw) >= 2:
                        a, b = r.sample(bw, 2)
                        oa, ob = f[a + ".blocks_start"], f[b + ".blocks_start"]
                        data = sqfsimg.patch(data, ob[0], ob[1], int.from_bytes(img[oa[0]:oa[0] + oa[1]], "little"))
                        wa = int.from_bytes(img[f[a + ".blockword0"][0]:f[a + ".blockword0"][0] + 4], "little")
                        how = r.choice(["own-word", "same-word", "flip-stored-bit", "flip-stored-bit", "size+1", "size-1"])
                        if how != "own-word":
                            w = {"same-word": wa, "flip-stored-bit": wa ^ (1 << 24), "size+1": wa + 1, "size-1": max(1, wa - 1)}[how]
                            data = sqfsimg.patch(data, f[b + ".blockword0"][0], 4, w)
                        muts.append("%s at the location of %s (%s)" % (b, a, how))
                        oc.inc("same_location_images")
                oc.notes.append("damaged: " + ",".join(muts)[:100])
                with open(ip, "wb") as fh:
                    fh.write(data)
            cat = catalogue(im, r, bs)
            # reference answers: fresh objects per query
            res, ref = ask(exe, ip, "fresh", cat)
            if res.san:
                # memory errors on damaged images belong to C05; here they only make the case inconclusive
                oc.notes.append("sanitizer report while computing reference answers (C05 matter): %s" % res.san)
                return oc
            if len(ref) != len(cat):
                oc.inconclusive.append("reference run answered %d of %d queries (rc=%s)" % (len(ref), len(cat), res.rc))
                return oc
            refmap = dict(zip(cat, ref))
            # Y a j must not depend on j
            ys = {}
            for qq, a in refmap.items():
                if qq.startswith("Y "):
                    ys.setdefault(qq.split()[1], set()).add(a)
            for a_, answers in ys.items():
                oc.inc("xattr_lowlevel_walks")
                if len(answers) > 1 and kind == "tool":
                    oc.violate("history:xattr-descriptor-lookup-moves-the-key-value-cursor", "set %s: answers %r depend on the descriptor looked up in between" % (a_, sorted(answers)[:3]), {"image.sqfs": data[:1 << 20]})
            oc.inc("catalogue_queries", len(cat))
            oc.inc("catalogue_failing_queries", sum(1 for a in ref if not a.startswith("0 ")))
            for k in set(x[0] for x in cat):
                oc.inc("kind:" + k, sum(1 for x in cat if x[0] == k))
            H, L = (40, 40) if tier == "quick" else (400, 60)
            failing = [x for x in cat if not refmap[x].startswith("0 ")]
            meta = [x for x in cat if x[0] == "M"]
            for h in range(H):
                hist = []
                style = h % 4
                for _ in range(L):
                    c = r.random()
                    if style == 0 or not hist:
                        hist.append(r.choice(cat))
                    elif style == 1 and c < 0.5 and failing:
                        hist.append(r.choice(failing))          # failing query in between
                    elif style == 2 and c < 0.6:
                        hist.append(r.choice(hist[-3:]))          # repeats
                    elif style == 3 and c < 0.6 and meta:
                        hist.append(r.choice(meta))             # same / neighbouring blocks
                    else:
                        hist.append(r.choice(cat))
                ev = os.path.join(work, "ev")
                res, ans = ask(exe, ip, "shared", hist, env={"VERIF_EVLOG": ev})
                oc.inc("histories")
                oc.inc("history_queries", len(hist))
                if res.san:
                    oc.notes.append("sanitizer report during a history (C05 matter): %s" % res.san)
                    continue
                if ans and ans[0].startswith("OPENFAIL"):
                    oc.inc("open_failed")
                    break
                if b"ITER-REOPEN" in res.out:
                    l = [x for x in res.out.decode("latin1").split("\n") if x.startswith("ITER-REOPEN")][0]
                    oc.violate("history:open_subdir-second-call-differs", "opening the same sub directory entry twice through one iterator: %s" % l, {"image.sqfs": data[:1 << 20]})
                    break
                if b"STREAM-AFTER-ERROR" in res.out:
                    l = [x for x in res.out.decode("latin1").split("\n") if x.startswith("STREAM-AFTER-ERROR")][0]
                    oc.violate("stream:data-after-error", "a file stream that reported an error handed out data on the next call: %s" % l, {"image.sqfs": data[:1 << 20], "history.txt": "\n".join(hist)})
                    break
                if len(ans) != len(hist):
                    oc.inconclusive.append("history answered %d of %d" % (len(ans), len(hist)))
                    continue
                try:
                    with open(ev) as fh:
                        for l in fh:
                            p = l.split()
                            if len(p) == 6 and p[2] in ("30", "31"):
                                oc.inc("cache_%s_%s" % ("meta" if p[2] == "30" else "data", "hit" if p[3] == "0" else "miss"))
                except OSError:
                    pass
                bad = [i for i, (qq, a) in enumerate(zip(hist, ans)) if refmap[qq] != a]
                if bad:
                    # minimise: shortest history that still makes the first differing query differ
                    i = bad[0]
                    cur = hist[:i + 1]
                    target = cur[-1]
                    changed = True
                    while changed and len(cur) > 1:
                        changed = False
                        for k in range(len(cur) - 1):
                            trial = cur[:k] + cur[k + 1:]
                            _, a2 = ask(exe, ip, "shared", trial)
                            if len(a2) == len(trial) and a2[-1] != refmap[target]:
                                cur = trial
                                changed = True
                                break
                    kinds = "-then-".join(x[0] for x in cur[-2:])
                    what = "status" if ans[i].split()[0] != refmap[target].split()[0] else "payload"
                    oc.violate("history:%s:%s:%s" % (kinds, what, "valid-image" if kind == "tool" else "damaged-image"),
                               "minimal history %r: last answer %r, fresh readers answer %r" % (cur, ans[i], refmap[target]),
                               {"image.sqfs": data[:1 << 20], "history.txt": "\n".join(cur)})
                    break
            # the three data APIs agree on files the library itself wrote
            if kind == "tool":
                res = core.run_tool([exe, ip, "shared"], stdin=b"W\n", timeout=300, binary="libsquashfs-reader")
                oc.inc("api_agreement_walks")
                if b"DISAGREE" in res.out:
                    oc.violate("apis:stream-vs-positional-read-disagree", res.out[:200].decode("latin1"), {"image.sqfs": data[:1 << 20]})
            oc.sample = {"image": "%s-%d" % (kind, idx), "queries": len(cat), "failing_in_catalogue": len(failing), "example_history": hist[:6]}
    except Exception:
        oc.inconclusive.append("harness exception: %s" % traceback.format_exc()[-800:])
    return oc


def main(tier):
    rep = core.Report(PROP, tier, "exploration",
                      "per image a catalogue of self-contained reader queries (inode by reference incl. references into the middle of records and beyond a block, list directory, resolve path, positional read, "
                      "block, fragment, stream, xattr set, id, raw metadata seek+read; valid and invalid arguments) is answered once with freshly created readers per query; then histories of queries "
                      "(random, with failing queries in between, repeats, same/neighbouring metadata blocks) run on one long-lived set of reader objects and every answer (status, payload hash) must equal the fresh answer; "
                      "a mismatch is minimised to the shortest history; images: tool-written in all compressors and field-mutated writer images; distinct = images")
    build.build("asan")
    harness()
    nt, nd = (10, 30) if tier == "quick" else (60, 400)
    items = [(i, "tool", tier) for i in range(nt)] + [(i, "damaged", tier) for i in range(nd)] + [(i, "lzma-size", tier) for i in range(4 if tier == "quick" else 24)]
    for oc in core.pmap(run_image, items):
        rep.add(oc)
    rep.evaluations = rep.counters.get("history_queries", 0)
    rep.required_nonzero = ["histories", "catalogue_failing_queries", "cache_meta_hit", "cache_data_hit", "api_agreement_walks", "kind:M", "kind:R", "kind:X"]
    rep.assumptions = ["the documented statefulness of SQFS_DIR_READER_DOT_ENTRIES is not exercised; cursor style APIs are used as seek+read queries"]
    return rep.finish()
