"""Shared plumbing: scratch dirs, running tools with sanitizer-report parsing,
three-valued verdicts, known-finding matching, evidence and exit codes."""
import hashlib, json, os, re, shutil, signal, subprocess, sys, time, random, glob, traceback
from concurrent.futures import ProcessPoolExecutor, as_completed

VERIF = os.path.dirname(os.path.dirname(os.path.abspath(__file__)))
REPO = os.environ.get("VERIF_REPO", "/repo")
SEED = int(os.environ.get("VERIF_SEED", "1"))
JOBS = int(os.environ.get("VERIF_JOBS", "16"))

ASAN_OPTS = ("abort_on_error=0:halt_on_error=1:detect_leaks=0:allocator_may_return_null=1:"
             "max_allocation_size_mb=3072:detect_stack_use_after_return=0:handle_abort=1:"
             "exitcode=99:hard_rss_limit_mb=4096")
UBSAN_OPTS = "print_stacktrace=1:halt_on_error=0:exitcode=99"


def scratch_root():
    for base in ("/dev/shm", "/var/tmp"):
        if os.path.isdir(base) and os.access(base, os.W_OK):
            return base
    return "/var/tmp"


class Scratch:
    def __init__(self, tag="run"):
        self.path = os.path.join(scratch_root(), "sqfsng-%s-%d-%d" % (tag, os.getpid(), random.getrandbits(24)))
        os.makedirs(self.path, exist_ok=True)

    def __enter__(self):
        return self.path

    def __exit__(self, *a):
        self.cleanup()

    def cleanup(self):
        try:
            shutil.rmtree(self.path, ignore_errors=True)
        except Exception:
            pass          # e.g. RecursionError for a tree unpacked thousands of levels deep
        if os.path.exists(self.path):
            subprocess.run(["rm", "-rf", self.path], stdout=subprocess.DEVNULL, stderr=subprocess.DEVNULL)


def rng_for(*parts):
    h = hashlib.sha256(("|".join(str(p) for p in (SEED,) + parts)).encode()).digest()
    return random.Random(int.from_bytes(h[:8], "big"))


def sha(b):
    return hashlib.sha256(b).hexdigest()


def sha_file(p):
    h = hashlib.sha256()
    with open(p, "rb") as f:
        while True:
            b = f.read(1 << 20)
            if not b:
                break
            h.update(b)
    return h.hexdigest()


class RunResult:
    __slots__ = ("rc", "out", "err", "hang", "san", "signal", "wall", "cmd")

    def __repr__(self):
        return "RunResult(rc=%r hang=%r san=%r sig=%r)" % (self.rc, self.hang, self.san, self.signal)


_frame_re = re.compile(rb"#\d+ 0x[0-9a-f]+ in (\S+) (\S+)")
_FATAL_UB = (b"index", b"out of bounds", b"null pointer", b"division by zero", b"unreachable",
             b"pointer overflow", b"pointer index", b"misaligned", b"applying", b"overflowed to",
             b"member access within", b"load of", b"store to", b"execution reached", b"variable length array")
_RECOVERABLE_UB = (b"signed integer overflow", b"shift exponent", b"left shift", b"load of value", b"is outside the range of representable",
                   b"not a valid value for type")


def parse_sanitizer(text, binary=""):
    """Returns (key or None, notes[]) from combined ASan/UBSan output."""
    if not text:
        return None, []
    notes = []
    key = None
    m = re.search(rb"ERROR: (AddressSanitizer|LeakSanitizer|ThreadSanitizer): ([^\n]*)", text)
    if m:
        kind = m.group(2).split(b" on ")[0].split(b":")[0].strip()
        kind = re.sub(rb"0x[0-9a-f]+", b"", kind).strip()
        kind = kind.split(b"(")[0].strip().replace(b" ", b"-")[:40]
        if m.group(2).startswith(b"requested allocation size") or b"allocation-size-too-big" in m.group(2):
            kind = b"allocation-size-too-big"
        if b"detected memory leaks" in m.group(2):
            kind = b"leak"
        fn = _first_project_frame(text[m.start():])
        key = "%s:%s:%s" % (binary, kind.decode(errors="replace"), fn)
        return key, notes
    for m in re.finditer(rb"([^\s:]+):(\d+):(\d+): runtime error: ([^\n]*)", text):
        msg = m.group(4)
        fil = os.path.basename(m.group(1).decode(errors="replace"))
        if any(msg.startswith(p) or p in msg for p in _RECOVERABLE_UB) and not msg.startswith(b"index"):
            notes.append("ubsan-note %s:%s %s" % (fil, m.group(2).decode(), msg.decode(errors="replace")[:80]))
            continue
        kind = re.sub(rb"0x[0-9a-f]+|\d+", b"N", msg)[:50].decode(errors="replace").strip().replace(" ", "-")
        fn = _first_project_frame(text[m.start():])
        if fn == "?":
            fn = "%s:%s" % (fil, m.group(2).decode())
        key = "%s:ubsan-%s:%s" % (binary, kind, fn)
        break
    if key is None and b"AddressSanitizer:DEADLYSIGNAL" in text:
        fn = _first_project_frame(text)
        key = "%s:SEGV:%s" % (binary, fn)
    if key is None and b"AddressSanitizer: hard rss limit exhausted" in text:
        key = "%s:rss-limit:?" % binary
    return key, notes


def _first_project_frame(text):
    for fm in _frame_re.finditer(text[:20000]):
        fn = fm.group(1).decode(errors="replace")
        loc = fm.group(2).decode(errors="replace")
        if "/repo/" in loc or "/lib/" in loc and "sqfs" in loc or "/verif/" in loc or "/bin/" in loc and ".c:" in loc:
            if fn.startswith("__interceptor") or fn.startswith("__wrap_") or fn.startswith("__asan"):
                continue
            return fn
    return "?"


_libc = None


def _die_with_parent():
    """Called in the child between fork and exec: the tool under test is killed when the checking process dies
    (a check that is itself killed must not leave a spinning tool behind)."""
    global _libc
    try:
        import ctypes
        if _libc is None:
            _libc = ctypes.CDLL(None, use_errno=True)
        _libc.prctl(1, 9, 0, 0, 0)       # PR_SET_PDEATHSIG, SIGKILL
    except Exception:
        pass


def run_tool(cmd, stdin=None, env=None, timeout=30, cwd=None, stdin_file=None, stdout_file=None,
             binary=None, san_dir=None, limit_as=None, stack_kb=None, pass_fds=(), pin_cpu=False):
    """Run one process.  Sanitizer reports are taken from stderr."""
    e = dict(os.environ)
    e["ASAN_OPTIONS"] = ASAN_OPTS
    e["UBSAN_OPTIONS"] = UBSAN_OPTS
    e.setdefault("TSAN_OPTIONS", "halt_on_error=0:exitcode=98")
    e.pop("SOURCE_DATE_EPOCH", None)
    if env:
        e.update(env)
    r = RunResult()
    r.cmd = cmd
    r.hang = False
    r.signal = None
    t0 = time.time()
    fin = None
    fout = None

    def pre():
        os.setsid()
        _die_with_parent()
        if pin_cpu:
            try:
                cpus = sorted(os.sched_getaffinity(0))
                os.sched_setaffinity(0, {cpus[os.getpid() % len(cpus)]})
            except OSError:
                pass
        if stack_kb:
            import resource
            resource.setrlimit(resource.RLIMIT_STACK, (stack_kb * 1024, stack_kb * 1024))
    try:
        if stdin_file:
            fin = open(stdin_file, "rb")
        if stdout_file:
            fout = open(stdout_file, "wb")
        p = subprocess.Popen(cmd, stdin=fin if fin else (subprocess.PIPE if stdin is not None else subprocess.DEVNULL),
                             stdout=fout if fout else subprocess.PIPE, stderr=subprocess.PIPE,
                             env=e, cwd=cwd, preexec_fn=pre, pass_fds=pass_fds)
        try:
            out, err = p.communicate(stdin if not fin else None, timeout=timeout)
        except subprocess.TimeoutExpired:
            r.hang = True
            try:
                os.killpg(p.pid, signal.SIGKILL)
            except OSError:
                pass
            out, err = p.communicate()
    finally:
        if fin:
            fin.close()
        if fout:
            fout.close()
    r.wall = time.time() - t0
    r.rc = p.returncode
    r.out = out or b""
    r.err = err or b""
    if r.rc is not None and r.rc < 0 and not r.hang:
        r.signal = -r.rc
    b = binary or os.path.basename(cmd[0])
    r.san, notes = parse_sanitizer(r.err, b)
    if r.san is None and r.signal is not None and r.signal != signal.SIGKILL:
        r.san = "%s:signal-%d:?" % (b, r.signal)
    if r.san is None and r.rc == 99:
        r.san = "%s:sanitizer-exit:?" % b
    return r


# ---------------------------------------------------------------- verdicts

HELD, VIOLATED, INCONCLUSIVE = "held", "violated", "inconclusive"


class Outcome:
    """Result of one case: list of violations (key, detail), inconclusive notes, features, counters."""

    def __init__(self, case_id, features=()):
        self.case_id = case_id
        self.features = tuple(features)
        self.violations = []       # (key, detail, witness dict name->bytes/str)
        self.inconclusive = []
        self.counters = {}
        self.sample = None
        self.notes = []

    def violate(self, key, detail="", witness=None):
        self.violations.append((key, detail, witness or {}))

    def inc(self, name, n=1):
        self.counters[name] = self.counters.get(name, 0) + n

    def status(self):
        if self.violations:
            return VIOLATED
        if self.inconclusive:
            return INCONCLUSIVE
        return HELD


def load_known():
    p = os.path.join(VERIF, "known_findings.json")
    if not os.path.exists(p):
        return []
    with open(p) as f:
        return json.load(f).get("findings", [])


class Report:
    def __init__(self, prop, tier, level="exploration", rule=""):
        self.prop = prop
        self.tier = tier
        self.level = level
        self.rule = rule
        self.t0 = time.time()
        self.evaluations = 0
        self.features = set()
        self.counters = {}
        self.samples = []
        self.viol = {}       # key -> (detail, witness, count)
        self.inconclusive = []
        self.notes = set()
        self.extra = {}
        self.assumptions = []
        self.exhaustive = None
        self.inconclusive_cap = 0.02
        self.required_nonzero = []   # counters that must be > 0, else the run is inconclusive

    def add(self, oc):
        self.evaluations += 1
        if oc.features:
            self.features.add(oc.features)
        for k, v in oc.counters.items():
            self.counters[k] = self.counters.get(k, 0) + v
        if oc.sample is not None and len(self.samples) < 6:
            self.samples.append(oc.sample)
        for key, detail, wit in oc.violations:
            if key in self.viol:
                d, w, c, ids = self.viol[key]
                self.viol[key] = (d, w, c + 1, ids + [oc.case_id] if len(ids) < 5 else ids)
            else:
                self.viol[key] = (detail, wit, 1, [oc.case_id])
        for n in oc.inconclusive:
            self.inconclusive.append((oc.case_id, n))
        for n in oc.notes:
            self.notes.add(n)

    def count(self, name, n=1):
        self.counters[name] = self.counters.get(name, 0) + n

    def finish(self):
        """Prints verdict lines, writes evidence, returns exit code."""
        known = [k for k in load_known() if k.get("property") == self.prop]
        open_known = [k for k in known if k.get("status") == "open"]
        rc = 0
        reproduced = set()
        nviol = 0
        replay_root = os.path.join(VERIF, "replays", self.prop)
        for key, (detail, wit, cnt, ids) in sorted(self.viol.items()):
            match = None
            for k in open_known:
                if _key_match(k["key"], key):
                    match = k
                    break
            if match is not None:
                reproduced.add(match["key"])
                continue
            nviol += 1
            rc = 1
            d = os.path.join(replay_root, re.sub(r"[^A-Za-z0-9_.-]", "_", key)[:100])
            os.makedirs(d, exist_ok=True)
            with open(os.path.join(d, "violation.json"), "w") as f:
                json.dump({"property": self.prop, "key": key, "detail": detail, "count": cnt,
                           "cases": ids, "seed": SEED, "tier": self.tier}, f, indent=1)
            for name, data in (wit or {}).items():
                try:
                    mode = "wb" if isinstance(data, (bytes, bytearray)) else "w"
                    with open(os.path.join(d, os.path.basename(name)), mode) as f:
                        f.write(data)
                except Exception:
                    pass
            print("VIOLATION property=%s replay=%s key=%s count=%d detail=%s" %
                  (self.prop, d, key, cnt, str(detail)[:300].replace("\n", " | ")))
        for k in open_known:
            tag = "reproduced" if k["key"] in reproduced else "not exercised in this run"
            print("KNOWN-FINDING: property=%s key=%s [%s] %s" % (self.prop, k["key"], tag, k.get("summary", "")))
        # inconclusive handling
        inconc = len(self.inconclusive)
        missing = [c for c in self.required_nonzero if self.counters.get(c, 0) == 0]
        harness_fail = False
        if self.evaluations == 0:
            harness_fail = True
            print("INCONCLUSIVE property=%s no cases were evaluated" % self.prop)
        elif inconc > max(self.inconclusive_cap * self.evaluations, 0):
            harness_fail = True
            print("INCONCLUSIVE property=%s %d of %d cases inconclusive, e.g. %s" %
                  (self.prop, inconc, self.evaluations, self.inconclusive[:3]))
        elif inconc:
            print("NOTE property=%s %d inconclusive case(s) below the cap, e.g. %s" % (self.prop, inconc, str(self.inconclusive[:2])[:700]))
        if missing:
            harness_fail = True
            print("INCONCLUSIVE property=%s monitors observed nothing: %s" % (self.prop, missing))
        if rc == 0 and harness_fail:
            rc = 2
        cov = {
            "evaluations": self.evaluations,
            "distinct_nontrivial": self.distinct_override if getattr(self, "distinct_override", None) is not None else len(self.features),
            "rule": self.rule,
            "samples": self.samples or ["(no sample recorded)"],
            "counters": dict(sorted(self.counters.items())),
            "inconclusive_cases": inconc,
            "known_findings_reproduced": sorted(reproduced),
            "notes": sorted(self.notes)[:40],
        }
        if self.exhaustive is not None:
            cov["exhaustive"] = self.exhaustive
        cov.update(self.extra)
        ev = {
            "property_id": self.prop, "tier": self.tier, "seed": SEED, "level": self.level,
            "coverage": cov, "assumptions": self.assumptions,
            "wall_s": round(time.time() - self.t0, 2), "violations": nviol,
        }
        os.makedirs(os.path.join(VERIF, "evidence"), exist_ok=True)
        with open(os.path.join(VERIF, "evidence", self.prop + ".json"), "w") as f:
            json.dump(ev, f, indent=1, default=str)
        verdict = {0: "HELD", 1: "VIOLATED", 2: "INCONCLUSIVE"}[rc]
        print("%s property=%s tier=%s seed=%d evaluations=%d distinct=%d violations=%d known=%d inconclusive=%d wall=%.1fs" %
              (verdict, self.prop, self.tier, SEED, self.evaluations, cov["distinct_nontrivial"], nviol, len(reproduced), inconc,
               time.time() - self.t0))
        return rc


def _key_match(pattern, key):
    if pattern == key:
        return True
    if pattern.endswith("*") and key.startswith(pattern[:-1]):
        return True
    return False


def pmap(fn, items, jobs=None, chunksize=1):
    """Parallel map over processes preserving nothing but results; exceptions become harness failures."""
    jobs = jobs or JOBS
    items = list(items)
    if jobs <= 1 or len(items) <= 1:
        for it in items:
            yield fn(it)
        return
    with ProcessPoolExecutor(jobs) as ex:
        futs = [ex.submit(fn, it) for it in items]
        for f in as_completed(futs):
            try:
                yield f.result()
            except Exception:
                # a worker that raised or died (e.g. killed for memory) is an inconclusive case, not the end of the check
                import traceback
                oc = Outcome("worker-failure")
                oc.inconclusive.append("worker failed: %s" % traceback.format_exc()[-600:])
                yield oc


def harness_error(prop, msg):
    print("HARNESS-ERROR property=%s %s" % (prop, msg))
    sys.exit(2)
