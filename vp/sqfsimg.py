"""Independent SquashFS 4.0 reader / validator / writer, written from
doc/format.adoc.  Shares no code with libsquashfs.

  img = parse(bytes)              -> Image (tree model + layout facts + rule results)
  img.problems                    -> list of (rule, where, detail)
  build_image(spec)               -> bytes  (writer; every on-disk field overridable)
"""
import struct, zlib, lzma, hashlib, ctypes, ctypes.util, collections

MAGIC = 0x73717368
META = 8192
NOFRAG = 0xFFFFFFFF
NOXATTR = 0xFFFFFFFF

COMP_NAMES = {1: "gzip", 2: "lzma", 3: "lzo", 4: "xz", 5: "lz4", 6: "zstd"}
COMP_IDS = {v: k for k, v in COMP_NAMES.items()}

T_DIR, T_FILE, T_SLINK, T_BDEV, T_CDEV, T_FIFO, T_SOCK = 1, 2, 3, 4, 5, 6, 7
TYPE_NAMES = {1: "dir", 2: "file", 3: "slink", 4: "bdev", 5: "cdev", 6: "fifo", 7: "sock"}
S_IFMT = {1: 0o040000, 2: 0o100000, 3: 0o120000, 4: 0o060000, 5: 0o020000, 6: 0o010000, 7: 0o140000}

F_UNCOMP_INODES, F_UNCOMP_DATA, F_CHECK, F_UNCOMP_FRAGS, F_NO_FRAGS, F_ALWAYS_FRAGS, F_DUPLICATES, \
    F_EXPORTABLE, F_UNCOMP_XATTRS, F_NO_XATTRS, F_COMP_OPTS, F_UNCOMP_IDS = [1 << i for i in range(12)]


class ParseError(Exception):
    pass


# ------------------------------------------------------------------ codecs
_lz4 = None
_zstd = None


def _load_lz4():
    global _lz4
    if _lz4 is None:
        _lz4 = ctypes.CDLL("liblz4.so.1")
        _lz4.LZ4_decompress_safe.argtypes = [ctypes.c_char_p, ctypes.c_char_p, ctypes.c_int, ctypes.c_int]
        _lz4.LZ4_decompress_safe.restype = ctypes.c_int
        _lz4.LZ4_compress_default.argtypes = [ctypes.c_char_p, ctypes.c_char_p, ctypes.c_int, ctypes.c_int]
        _lz4.LZ4_compress_default.restype = ctypes.c_int
        _lz4.LZ4_compressBound.argtypes = [ctypes.c_int]
        _lz4.LZ4_compressBound.restype = ctypes.c_int
    return _lz4


def _load_zstd():
    global _zstd
    if _zstd is None:
        _zstd = ctypes.CDLL("libzstd.so.1")
        _zstd.ZSTD_decompress.argtypes = [ctypes.c_char_p, ctypes.c_size_t, ctypes.c_char_p, ctypes.c_size_t]
        _zstd.ZSTD_decompress.restype = ctypes.c_size_t
        _zstd.ZSTD_compress.argtypes = [ctypes.c_char_p, ctypes.c_size_t, ctypes.c_char_p, ctypes.c_size_t, ctypes.c_int]
        _zstd.ZSTD_compress.restype = ctypes.c_size_t
        _zstd.ZSTD_isError.argtypes = [ctypes.c_size_t]
        _zstd.ZSTD_isError.restype = ctypes.c_uint
        _zstd.ZSTD_compressBound.argtypes = [ctypes.c_size_t]
        _zstd.ZSTD_compressBound.restype = ctypes.c_size_t
    return _zstd


def decompress(comp, data, maxout):
    """Returns the uncompressed bytes or raises ParseError."""
    try:
        if comp == 1:
            d = zlib.decompressobj()
            out = d.decompress(data, maxout + 1)
            if not d.eof:
                raise ParseError("gzip block: stream does not end (or larger than %d)" % maxout)
            if d.unused_data:
                raise ParseError("gzip block: trailing bytes")
            return out
        if comp == 4:
            d = lzma.LZMADecompressor(format=lzma.FORMAT_XZ)
            out = d.decompress(data, maxout + 1)
            if not d.eof:
                raise ParseError("xz block: stream does not end")
            return out
        if comp == 2:
            d = lzma.LZMADecompressor(format=lzma.FORMAT_ALONE)
            out = d.decompress(data, maxout + 1)
            return out
        if comp == 5:
            l = _load_lz4()
            buf = ctypes.create_string_buffer(maxout)
            n = l.LZ4_decompress_safe(data, buf, len(data), maxout)
            if n < 0:
                raise ParseError("lz4 block: decoder error")
            return buf.raw[:n]
        if comp == 6:
            z = _load_zstd()
            buf = ctypes.create_string_buffer(maxout)
            n = z.ZSTD_decompress(buf, maxout, data, len(data))
            if z.ZSTD_isError(n):
                raise ParseError("zstd block: decoder error")
            return buf.raw[:n]
    except (zlib.error, lzma.LZMAError) as e:
        raise ParseError("decoder error: %s" % e)
    raise ParseError("unsupported compressor id %d" % comp)


def compress(comp, data):
    if comp == 1:
        return zlib.compress(data, 9)
    if comp == 4:
        return lzma.compress(data, format=lzma.FORMAT_XZ, check=lzma.CHECK_CRC32)
    if comp == 2:
        out = bytearray(lzma.compress(data, format=lzma.FORMAT_ALONE))
        out[5:13] = struct.pack("<Q", len(data))
        return bytes(out)
    if comp == 5:
        l = _load_lz4()
        bound = l.LZ4_compressBound(len(data))
        buf = ctypes.create_string_buffer(bound)
        n = l.LZ4_compress_default(data, buf, len(data), bound)
        return buf.raw[:n]
    if comp == 6:
        z = _load_zstd()
        bound = z.ZSTD_compressBound(len(data))
        buf = ctypes.create_string_buffer(bound)
        n = z.ZSTD_compress(buf, bound, data, len(data), 3)
        return buf.raw[:n]
    raise ValueError(comp)


# ------------------------------------------------------------------ model

class Inode:
    __slots__ = ("ref", "end_ref", "type", "base", "ext", "mode", "uid_idx", "gid_idx", "uid", "gid", "mtime",
                 "number", "nlink", "size", "target", "devno", "xattr_idx", "xattrs", "blocks_start", "block_words",
                 "frag_idx", "frag_off", "sparse", "dir_block", "dir_off", "parent", "index", "sha256", "paths",
                 "raw_size", "dir_refs")

    def __init__(self):
        for s in self.__slots__:
            setattr(self, s, None)
        self.paths = []
        self.dir_refs = 0


class Image:
    def __init__(self, data):
        self.data = data
        self.sb = {}
        self.problems = []
        self.evals = collections.Counter()
        self.inodes_by_ref = {}
        self.inodes_scan = {}       # ref -> Inode from the linear scan
        self.tree = {}              # path(bytes, b"" for root, no leading /) -> Inode
        self.children = {}          # dir path -> list of (name, Inode)
        self.ids = []
        self.frags = []             # (start, sizeword, unused)
        self.export = None
        self.xattr_sets = []        # list of list of (key bytes, value bytes)
        self.xattr_raw = []
        self.meta_blocks = {}       # abs pos -> (hdr, stored, unc_len)
        self.facts = collections.Counter()
        self.dir_layout = {}        # path -> list of headers [(count, start, inum, [(off, delta, type, name)])]
        self.comp_opts = None

    def check(self, rule, cond, where="", detail=""):
        self.evals[rule] += 1
        if not cond:
            if len(self.problems) < 200:
                self.problems.append((rule, where, detail))
        return cond


class _Meta:
    """Metadata block cache over the image bytes."""

    def __init__(self, img):
        self.img = img
        self.cache = {}

    def block(self, pos, limit=None):
        """Returns (payload bytes, next block pos)."""
        c = self.cache.get(pos)
        if c is not None:
            return c
        d = self.img.data
        if pos < 0 or pos + 2 > len(d):
            raise ParseError("metadata block header at %d outside image (%d)" % (pos, len(d)))
        hdr = struct.unpack_from("<H", d, pos)[0]
        sz = hdr & 0x7FFF
        unc = bool(hdr & 0x8000)
        if sz > META:
            raise ParseError("metadata block at %d: stored size %d > 8192" % (pos, sz))
        if sz == 0:
            raise ParseError("metadata block at %d: stored size 0" % pos)
        if pos + 2 + sz > len(d):
            raise ParseError("metadata block at %d: payload beyond end of image" % pos)
        raw = d[pos + 2: pos + 2 + sz]
        if unc:
            out = raw
        else:
            out = decompress(self.img.sb["compressor"], raw, META)
            if len(out) > META:
                raise ParseError("metadata block at %d expands beyond 8192" % pos)
        self.img.meta_blocks[pos] = (hdr, sz, len(out))
        r = (out, pos + 2 + sz)
        self.cache[pos] = r
        return r


class _Cursor:
    def __init__(self, meta, base, block, off):
        self.meta = meta
        self.base = base
        self.block = block   # relative to base
        self.off = off

    def read(self, n):
        out = bytearray()
        guard = 0
        while n > 0:
            data, nxt = self.meta.block(self.base + self.block)
            if self.off > len(data):
                raise ParseError("offset %d beyond metadata block (%d bytes) at %d" % (self.off, len(data), self.base + self.block))
            if self.off == len(data):
                self.block = nxt - self.base
                self.off = 0
                guard += 1
                if guard > 1 << 20:
                    raise ParseError("metadata read loop")
                continue
            take = min(n, len(data) - self.off)
            out += data[self.off:self.off + take]
            self.off += take
            n -= take
        return bytes(out)

    def u16(self):
        return struct.unpack("<H", self.read(2))[0]

    def u32(self):
        return struct.unpack("<I", self.read(4))[0]

    def ref(self):
        # normalise a position at the very end of a block to the next block
        data, nxt = self.meta.block(self.base + self.block)
        if self.off == len(data):
            return ((nxt - self.base) << 16)
        return (self.block << 16) | self.off


def _read_lookup_table(img, meta, loc, count, entry_size, name, lower=None):
    """Reads a lookup table: array of u64 block locations at loc."""
    nblk = (count * entry_size + META - 1) // META
    d = img.data
    if loc + nblk * 8 > len(d):
        raise ParseError("%s table location list beyond image" % name)
    locs = struct.unpack_from("<%dQ" % nblk, d, loc) if nblk else ()
    out = bytearray()
    for i, l in enumerate(locs):
        img.check("table.block-ptr-in-window", l < loc and (lower is None or l >= lower), name, "block %d at %d, list at %d, lower %s" % (i, l, loc, lower))
        data, nxt = meta.block(l)
        want = META if i < nblk - 1 else (count * entry_size - META * (nblk - 1))
        img.check("table.block-size", len(data) == want, name, "block %d has %d bytes, expected %d" % (i, len(data), want))
        out += data
    if len(out) < count * entry_size:
        raise ParseError("%s table too short" % name)
    return bytes(out[:count * entry_size]), locs


def parse(data, want_content=True, strict_walk=True):
    img = Image(data)
    if len(data) < 96:
        raise ParseError("shorter than a superblock")
    f = struct.unpack_from("<IIIIIHHHHHHQQQQQQQQ", data, 0)
    keys = ["magic", "inode_count", "mod_time", "block_size", "frag_count", "compressor", "block_log", "flags",
            "id_count", "vmaj", "vmin", "root", "bytes_used", "id_table", "xattr_table", "inode_table",
            "dir_table", "frag_table", "export_table"]
    sb = dict(zip(keys, f))
    img.sb = sb
    if sb["magic"] != MAGIC:
        raise ParseError("bad magic")
    img.check("sb.version", sb["vmaj"] == 4 and sb["vmin"] == 0, "superblock", "%d.%d" % (sb["vmaj"], sb["vmin"]))
    bs = sb["block_size"]
    img.check("sb.block-size-range", 4096 <= bs <= 1 << 20 and bs & (bs - 1) == 0, "superblock", str(bs))
    img.check("sb.block-log", bs == 1 << sb["block_log"], "superblock", "%d vs log %d" % (bs, sb["block_log"]))
    if not (4096 <= bs <= 1 << 20):
        raise ParseError("block size out of range")
    img.check("sb.bytes-used-le-file", sb["bytes_used"] <= len(data), "superblock", "%d > %d" % (sb["bytes_used"], len(data)))
    img.check("sb.compressor-known", sb["compressor"] in COMP_NAMES, "superblock", str(sb["compressor"]))
    img.check("sb.id-count", sb["id_count"] >= 1, "superblock", "id_count=0")
    NONE = 0xFFFFFFFFFFFFFFFF
    # table order
    order = [("inode_table", sb["inode_table"]), ("dir_table", sb["dir_table"])]
    if sb["frag_table"] != NONE:
        order.append(("frag_table", sb["frag_table"]))
    if sb["export_table"] != NONE:
        order.append(("export_table", sb["export_table"]))
    order.append(("id_table", sb["id_table"]))
    if sb["xattr_table"] != NONE:
        order.append(("xattr_table", sb["xattr_table"]))
    for (n1, v1), (n2, v2) in zip(order, order[1:]):
        img.check("sb.table-order", v1 < v2 or (v1 == v2 and n1 == "inode_table" and False), "superblock", "%s=%d !< %s=%d" % (n1, v1, n2, v2))
    for n, v in order:
        img.check("sb.table-in-bytes-used", 96 <= v < sb["bytes_used"], "superblock", "%s=%d bytes_used=%d" % (n, v, sb["bytes_used"]))
    flags = sb["flags"]
    img.check("sb.flag-exportable", bool(flags & F_EXPORTABLE) == (sb["export_table"] != NONE), "superblock", "flags=%#x export=%#x" % (flags, sb["export_table"]))
    img.check("sb.flag-no-frags", not (flags & F_NO_FRAGS) or sb["frag_count"] == 0, "superblock", "NO_FRAGMENTS with %d fragments" % sb["frag_count"])
    img.check("sb.flag-no-xattrs", not ((flags & F_NO_XATTRS) and sb["xattr_table"] != NONE), "superblock", "NO_XATTRS flag with xattr table")

    meta = _Meta(img)
    pos = 96
    if flags & F_COMP_OPTS:
        hdr = struct.unpack_from("<H", data, 96)[0]
        img.check("sb.comp-opts-uncompressed", hdr & 0x8000, "compressor options", hex(hdr))
        n = hdr & 0x7FFF
        img.comp_opts = data[98:98 + n]
        pos = 98 + n
    if sb["compressor"] == 5:
        img.check("sb.lz4-opts-present", bool(flags & F_COMP_OPTS), "superblock", "lz4 without options")
    img.facts["data_start"] = pos

    # ---- id table
    idraw, idlocs = _read_lookup_table(img, meta, sb["id_table"], sb["id_count"], 4, "id")
    img.ids = list(struct.unpack("<%dI" % sb["id_count"], idraw))
    # ---- fragment table
    if sb["frag_count"]:
        if sb["frag_table"] == NONE:
            raise ParseError("fragments announced without table")
        fr, _ = _read_lookup_table(img, meta, sb["frag_table"], sb["frag_count"], 16, "fragment")
        for i in range(sb["frag_count"]):
            s, w, u = struct.unpack_from("<QII", fr, i * 16)
            img.frags.append((s, w, u))
    # ---- export table
    if sb["export_table"] != NONE:
        ex, _ = _read_lookup_table(img, meta, sb["export_table"], sb["inode_count"], 8, "export")
        img.export = list(struct.unpack("<%dQ" % sb["inode_count"], ex))
    # ---- xattr
    if sb["xattr_table"] != NONE:
        _parse_xattrs(img, meta)

    # ---- inode table linear scan
    _scan_inodes(img, meta)
    # ---- tree walk
    _walk(img, meta, want_content)
    _validate_global(img)
    return img


def _parse_xattrs(img, meta):
    sb = img.sb
    d = img.data
    loc = sb["xattr_table"]
    if loc + 16 > len(d):
        raise ParseError("xattr table header beyond image")
    kv_start, count, unused = struct.unpack_from("<QII", d, loc)
    img.facts["xattr_sets"] = count
    img.check("xattr.kv-start", 96 <= kv_start < loc, "xattr table", "kv_start=%d" % kv_start)
    nblk = (count * 16 + META - 1) // META
    if loc + 16 + nblk * 8 > len(d):
        raise ParseError("xattr id location list beyond image")
    locs = struct.unpack_from("<%dQ" % nblk, d, loc + 16) if nblk else ()
    raw = bytearray()
    for i, l in enumerate(locs):
        img.check("table.block-ptr-in-window", kv_start <= l < loc, "xattr-id", "block %d at %d" % (i, l))
        data, _ = meta.block(l)
        raw += data
    if len(raw) < count * 16:
        raise ParseError("xattr id table too short")
    for i in range(count):
        ref, cnt, size = struct.unpack_from("<QII", raw, i * 16)
        cur = _Cursor(meta, kv_start, ref >> 16, ref & 0xFFFF)
        kvs = []
        total = 0
        for k in range(cnt):
            t = cur.u16()
            nsz = cur.u16()
            name = cur.read(nsz)
            vsz = cur.u32()
            total += 4 + nsz + 4
            pfx = {0: b"user.", 1: b"trusted.", 2: b"security."}.get(t & 0xFF)
            img.check("xattr.prefix-known", pfx is not None and (t & ~0x1FF) == 0, "xattr set %d" % i, "type=%#x" % t)
            if pfx is None:
                pfx = b"?%d." % (t & 0xFF)
            if t & 0x100:
                img.check("xattr.ool-size-8", vsz == 8, "xattr set %d" % i, "ool value size %d" % vsz)
                r = struct.unpack("<Q", cur.read(8))[0]
                total += 8
                c2 = _Cursor(meta, kv_start, r >> 16, r & 0xFFFF)
                vs = c2.u32()
                val = c2.read(vs)
                img.facts["xattr_ool"] += 1
            else:
                val = cur.read(vsz)
                total += vsz
            kvs.append((pfx + name, val))
        img.check("xattr.size-field", total == size, "xattr set %d" % i, "size field %d, actual %d" % (size, total))
        img.xattr_sets.append(kvs)
        img.xattr_raw.append((ref, cnt, size))


def _parse_inode(img, cur, meta):
    ino = Inode()
    ino.ref = cur.ref()
    t, mode, uidx, gidx, mtime, num = struct.unpack("<HHHHII", cur.read(16))
    if not 1 <= t <= 14:
        raise ParseError("inode type %d at ref %#x" % (t, ino.ref))
    ino.type = t
    ino.ext = t > 7
    ino.base = t - 7 if t > 7 else t
    ino.mode = mode
    ino.uid_idx, ino.gid_idx, ino.mtime, ino.number = uidx, gidx, mtime, num
    ino.xattr_idx = NOXATTR
    bs = img.sb["block_size"]
    if t == 1:
        ino.dir_block, ino.nlink, ino.size, ino.dir_off, ino.parent = struct.unpack("<IIHHI", cur.read(16))
        ino.index = []
    elif t == 8:
        ino.nlink, ino.size, ino.dir_block, ino.parent, icount, ino.dir_off, ino.xattr_idx = struct.unpack("<IIIIHHI", cur.read(24))
        ino.index = []
        for _ in range(icount):
            idx, start, nsz = struct.unpack("<III", cur.read(12))
            if nsz > 0xFFFF:
                raise ParseError("directory index name size %d" % nsz)
            ino.index.append((idx, start, cur.read(nsz + 1)))
    elif t == 2:
        ino.blocks_start, ino.frag_idx, ino.frag_off, ino.size = struct.unpack("<IIII", cur.read(16))
        ino.nlink = 1
        ino.sparse = 0
    elif t == 9:
        ino.blocks_start, ino.size, ino.sparse, ino.nlink, ino.frag_idx, ino.frag_off, ino.xattr_idx = struct.unpack("<QQQIIII", cur.read(40))
    elif t in (3, 10):
        ino.nlink, tsz = struct.unpack("<II", cur.read(8))
        if tsz > 1 << 20:
            raise ParseError("symlink target size %d" % tsz)
        ino.target = cur.read(tsz)
        ino.size = tsz
        if t == 10:
            ino.xattr_idx = cur.u32()
    elif t in (4, 5):
        ino.nlink, ino.devno = struct.unpack("<II", cur.read(8))
    elif t in (11, 12):
        ino.nlink, ino.devno, ino.xattr_idx = struct.unpack("<III", cur.read(12))
    elif t in (6, 7):
        ino.nlink = cur.u32()
    elif t in (13, 14):
        ino.nlink, ino.xattr_idx = struct.unpack("<II", cur.read(8))
    if ino.base == T_FILE:
        if ino.frag_idx == NOFRAG:
            nb = (ino.size + bs - 1) // bs
        else:
            nb = ino.size // bs
        if nb > (1 << 26):
            raise ParseError("file inode with %d blocks" % nb)
        ino.block_words = list(struct.unpack("<%dI" % nb, cur.read(4 * nb))) if nb else []
    ino.end_ref = cur.ref()
    return ino


def _scan_inodes(img, meta):
    sb = img.sb
    base = sb["inode_table"]
    end = sb["dir_table"]
    # total stream: walk blocks until dir_table
    pos = base
    nblocks = 0
    sizes = []
    while pos < end:
        data, nxt = meta.block(pos)
        sizes.append((pos, len(data)))
        pos = nxt
        nblocks += 1
        if nblocks > 1 << 22:
            raise ParseError("inode table too long")
    img.check("meta.inode-table-ends-at-dir-table", pos == end, "inode table", "blocks end at %d, dir table at %d" % (pos, end))
    for i, (p, l) in enumerate(sizes):
        img.check("meta.full-except-last", l == META or i == len(sizes) - 1, "inode table block at %d" % p, "%d bytes" % l)
    if not sizes:
        raise ParseError("empty inode table")
    last_pos, last_len = sizes[-1]
    cur = _Cursor(meta, base, 0, 0)
    n = 0
    while True:
        if cur.block == last_pos - base and cur.off >= last_len:
            break
        if cur.block > last_pos - base:
            break
        ino = _parse_inode(img, cur, meta)
        img.inodes_scan[ino.ref] = ino
        n += 1
        if n > sb["inode_count"] + 16:
            break
    img.check("sb.inode-count-equals-records", n == sb["inode_count"], "inode table", "%d records, superblock says %d" % (n, sb["inode_count"]))


def _read_dir(img, meta, ino, path):
    """Returns list of (name, inode ref, entry type, inode number)."""
    sb = img.sb
    size = ino.size
    out = []
    headers = []
    if size < 4:
        img.check("dir.size-empty", size == 3 or size == 0, path, "size field %d" % size)
        return out, headers
    remaining = size - 3
    cur = _Cursor(meta, sb["dir_table"], ino.dir_block, ino.dir_off)
    consumed = 0
    prev_name = None
    while remaining > 0:
        if remaining < 12:
            raise ParseError("directory listing of %r: %d stray bytes" % (path, remaining))
        _r = cur.ref()
        hpos = (_r >> 16, _r & 0xFFFF, consumed)
        cnt, start, inum = struct.unpack("<III", cur.read(12))
        remaining -= 12
        consumed += 12
        if cnt >= 1 << 20:
            raise ParseError("directory header count %d" % cnt)
        img.check("dir.header-count-le-256", cnt + 1 <= 256, path, "header with %d entries" % (cnt + 1))
        ents = []
        for _ in range(cnt + 1):
            if remaining < 8:
                raise ParseError("directory listing of %r truncated inside header run" % path)
            off, delta, typ, nsz = struct.unpack("<HhHH", cur.read(8))
            name = cur.read(nsz + 1)
            remaining -= 8 + nsz + 1
            consumed += 8 + nsz + 1
            img.check("dir.name-len-le-256", nsz + 1 <= 256, path, "name of %d bytes" % (nsz + 1))
            img.check("dir.name-chars", b"/" not in name and b"\0" not in name, path, repr(name[:40]))
            if prev_name is not None:
                img.check("dir.sorted-strict", prev_name < name, path, "%r !< %r" % (prev_name[:30], name[:30]))
            prev_name = name
            img.check("dir.entry-type-basic", 1 <= typ <= 7, path, "type %d" % typ)
            ents.append((off, delta, typ, name))
            out.append((name, (start << 16) | off, typ, (inum + delta) & 0xFFFFFFFF))
        headers.append((hpos, cnt + 1, start, inum, ents))
        if remaining < 0:
            raise ParseError("directory listing of %r overruns its size" % path)
    img.check("dir.size-field", remaining == 0, path, "size field off by %d" % remaining)
    return out, headers


def _file_content(img, ino, path, hasher=None):
    """Validates block layout of a file inode and returns sha256 of its content."""
    sb = img.sb
    bs = sb["block_size"]
    d = img.data
    h = hashlib.sha256()
    loc = ino.blocks_start
    remaining = ino.size
    sparse_bytes = 0
    zero = None
    comp = sb["compressor"]
    for i, w in enumerate(ino.block_words):
        sz = w & 0xFFFFFF
        unc = bool(w & (1 << 24))
        img.check("data.size-word-bits", (w & ~0x1FFFFFF) == 0, path, "block %d word %#x" % (i, w))
        want = min(bs, remaining)
        if sz == 0:
            if zero is None:
                zero = bytes(bs)
            h.update(zero[:want])
            sparse_bytes += want
            remaining -= want
            img.facts["sparse_blocks"] += 1
            continue
        img.check("data.stored-le-block", sz <= bs, path, "block %d stored %d > block size" % (i, sz))
        img.check("data.in-data-area", img.facts["data_start"] <= loc and loc + sz <= sb["inode_table"], path,
                  "block %d at %d..%d outside data area" % (i, loc, loc + sz))
        if loc + sz > len(d):
            raise ParseError("%r block %d beyond image" % (path, i))
        raw = d[loc:loc + sz]
        if unc:
            out = raw
            img.facts["uncompressed_data_blocks"] += 1
        else:
            out = decompress(comp, raw, bs)
            img.check("data.stored-le-uncompressed", sz <= len(out), path, "block %d stored %d > uncompressed %d" % (i, sz, len(out)))
            img.check("data.compressed-smaller", sz < len(out) or True, path)
        img.check("data.block-len", len(out) <= want and (len(out) == want or True), path, "block %d unpacks to %d, expected <= %d" % (i, len(out), want))
        if len(out) > want:
            out = out[:want]
        h.update(out)
        if len(out) < want:
            # short block, zero filled
            h.update(bytes(want - len(out)))
            img.facts["short_blocks"] += 1
        remaining -= want
        loc += sz
    if ino.frag_idx != NOFRAG:
        tail = ino.size % bs
        img.check("frag.index-in-range", ino.frag_idx < len(img.frags), path, "fragment index %d of %d" % (ino.frag_idx, len(img.frags)))
        if ino.frag_idx >= len(img.frags):
            raise ParseError("%r fragment index out of range" % path)
        img.check("frag.tail-nonzero", tail > 0 or ino.size == 0 and False, path, "fragment reference with tail size 0")
        fdata = _frag_block(img, ino.frag_idx)
        img.check("frag.range-in-block", ino.frag_off + tail <= len(fdata), path,
                  "offset %d + tail %d > fragment block %d" % (ino.frag_off, tail, len(fdata)))
        if ino.frag_off + tail > len(fdata):
            raise ParseError("%r fragment range outside block" % path)
        h.update(fdata[ino.frag_off:ino.frag_off + tail])
        remaining -= tail
    img.check("data.block-count", remaining == 0, path, "content accounting off by %d" % remaining)
    if ino.ext:
        img.check("data.sparse-field", ino.sparse == sparse_bytes, path, "sparse field %d, zero-size blocks cover %d" % (ino.sparse, sparse_bytes))
    else:
        img.check("inode.basic-file-fits", ino.blocks_start < (1 << 32) and ino.size < (1 << 32), path)
    return h.hexdigest()


_frag_cache_key = None


def _frag_block(img, idx):
    cache = img.__dict__.setdefault("_fragcache", {})
    if idx in cache:
        return cache[idx]
    start, w, unused = img.frags[idx]
    sz = w & 0xFFFFFF
    bs = img.sb["block_size"]
    where = "fragment %d" % idx
    img.check("frag.stored-le-block", sz <= bs, where, "stored %d" % sz)
    img.check("frag.in-data-area", img.facts["data_start"] <= start and start + sz <= img.sb["inode_table"], where, "at %d..%d" % (start, start + sz))
    img.check("frag.unused-zero", unused == 0, where, "unused=%#x" % unused)
    if start + sz > len(img.data):
        raise ParseError("fragment block %d beyond image" % idx)
    raw = img.data[start:start + sz]
    if w & (1 << 24):
        out = raw
        img.facts["uncompressed_frag_blocks"] += 1
    else:
        out = decompress(img.sb["compressor"], raw, bs)
        img.check("frag.stored-le-uncompressed", sz <= len(out), where, "stored %d > uncompressed %d" % (sz, len(out)))
    img.check("frag.len-le-block", len(out) <= bs, where, "%d" % len(out))
    if len(cache) > 64:
        cache.clear()
    cache[idx] = out
    return out


def _walk(img, meta, want_content):
    sb = img.sb
    root_ref = sb["root"]
    img.check("sb.root-ref-is-scanned-inode", root_ref in img.inodes_scan, "superblock", "root ref %#x" % root_ref)
    base = sb["inode_table"]

    def get_inode(ref):
        ino = img.inodes_by_ref.get(ref)
        if ino is None:
            ino = img.inodes_scan.get(ref)
            if ino is None:
                cur = _Cursor(meta, base, ref >> 16, ref & 0xFFFF)
                ino = _parse_inode(img, cur, meta)
                img.check("inode.ref-on-record-boundary", False, "ref %#x" % ref, "referenced inode is not at a record boundary of the inode table")
            img.inodes_by_ref[ref] = ino
        return ino

    root = get_inode(root_ref)
    if root.base != T_DIR:
        raise ParseError("root is not a directory")
    stack = [(b"", root, None, frozenset())]
    root.paths.append(b"")
    img.tree[b""] = root
    nvisited = 0
    while stack:
        path, ino, parent_num, ancestors = stack.pop()
        nvisited += 1
        if nvisited > 5_000_000:
            raise ParseError("tree walk exceeds 5M directories")
        ents, headers = _read_dir(img, meta, ino, path)
        img.dir_layout[path] = headers
        kids = []
        nsub = 0
        for name, ref, etype, enum in ents:
            child = get_inode(ref)
            cpath = path + b"/" + name if path else name
            img.check("dir.entry-type-matches-inode", etype == child.base, cpath, "entry type %d, inode type %d" % (etype, child.type))
            img.check("dir.entry-number-matches-inode", enum == child.number, cpath, "entry says %d, inode has %d" % (enum, child.number))
            child.dir_refs += 1
            child.paths.append(cpath)
            img.tree[cpath] = child
            kids.append((name, child))
            if child.base == T_DIR:
                nsub += 1
                if child.ref in ancestors or child is ino:
                    raise ParseError("directory loop at %r" % cpath)
                img.check("dir.single-parent", child.dir_refs == 1, cpath, "directory inode referenced %d times" % child.dir_refs)
                if child.dir_refs == 1:
                    img.check("dir.parent-number", child.parent == ino.number, cpath, "parent field %d, parent inode %d" % (child.parent, ino.number))
                    stack.append((cpath, child, ino.number, ancestors | {ino.ref}))
        img.children[path] = kids
        # header rules
        _check_headers(img, meta, ino, path, headers)
    img.check("dir.root-parent", True, "root")
    # per inode checks
    n = sb["inode_count"]
    numbers = collections.Counter()
    for ref, ino in img.inodes_by_ref.items():
        p = ino.paths[0] if ino.paths else b"?"
        numbers[ino.number] += 1
        img.check("inode.number-range", 1 <= ino.number <= n, p, "number %d of %d" % (ino.number, n))
        img.check("inode.uid-idx", ino.uid_idx < len(img.ids), p, "uid index %d" % ino.uid_idx)
        img.check("inode.gid-idx", ino.gid_idx < len(img.ids), p, "gid index %d" % ino.gid_idx)
        ino.uid = img.ids[ino.uid_idx] if ino.uid_idx < len(img.ids) else None
        ino.gid = img.ids[ino.gid_idx] if ino.gid_idx < len(img.ids) else None
        if ino.xattr_idx != NOXATTR:
            img.check("inode.xattr-idx", ino.xattr_idx < len(img.xattr_sets), p, "xattr index %d of %d" % (ino.xattr_idx, len(img.xattr_sets)))
            ino.xattrs = img.xattr_sets[ino.xattr_idx] if ino.xattr_idx < len(img.xattr_sets) else None
        else:
            ino.xattrs = []
        if ino.base != T_DIR:
            img.check("inode.nlink-equals-refs", ino.nlink == ino.dir_refs, p, "nlink %d, %d directory entries" % (ino.nlink, ino.dir_refs))
        else:
            img.check("inode.dir-nlink-ge-2", ino.nlink >= 2, p, "nlink %d" % ino.nlink)
            if not ino.ext:
                img.check("inode.basic-dir-fits", ino.size <= 0xFFFF, p)
        if ino.base == T_FILE and want_content:
            ino.sha256 = _file_content(img, ino, p)
        if img.export is not None and 1 <= ino.number <= len(img.export):
            img.check("export.entry-is-ref", img.export[ino.number - 1] == ino.ref, p, "export[%d]=%#x, inode at %#x" % (ino.number - 1, img.export[ino.number - 1], ino.ref))
    for num, c in numbers.items():
        img.check("inode.number-unique", c == 1, "inode number %d" % num, "used by %d inodes" % c)
    img.check("inode.numbers-exactly-1..N", len(numbers) == n and all(1 <= k <= n for k in numbers), "inode table",
              "%d distinct numbers for inode_count %d" % (len(numbers), n))
    img.check("inode.all-records-reachable", set(img.inodes_scan) == set(img.inodes_by_ref), "inode table",
              "%d records, %d reachable" % (len(img.inodes_scan), len(img.inodes_by_ref)))


def _check_headers(img, meta, ino, path, headers):
    sb = img.sb
    # block positions of headers for index validation
    hdr_by_index = {}
    for (blk, off, consumed), cnt, start, inum, ents in headers:
        hdr_by_index[consumed] = (blk, ents[0][3] if ents else None)
        # entries share one inode block: by construction (start is per header). deltas fit: by type (s16)
        img.check("dir.header-start-is-inode-block", (sb["inode_table"] + start) in img.meta_blocks, path, "start %d" % start)
    if len(headers) > 1:
        img.facts["multi_header_dirs"] += 1
    if ino.index:
        img.facts["indexed_dirs"] += 1
        for idx, start, name in ino.index:
            h = hdr_by_index.get(idx)
            img.check("dir.index-points-at-header", h is not None, path, "index offset %d is not a header" % idx)
            if h is not None:
                img.check("dir.index-block", h[0] == start, path, "index start %d, header in block %d" % (start, h[0]))
                img.check("dir.index-name", h[1] == name, path, "index name %r, header first entry %r" % (name[:30], (h[1] or b"")[:30]))


def _validate_global(img):
    sb = img.sb
    d = img.data
    # metadata block rules
    for pos, (hdr, stored, unc) in img.meta_blocks.items():
        img.check("meta.stored-le-8192", stored <= META, "meta block at %d" % pos)
        img.check("meta.unc-le-8192", unc <= META, "meta block at %d" % pos)
        if not hdr & 0x8000:
            img.check("meta.stored-le-uncompressed", stored <= unc, "meta block at %d" % pos, "stored %d > uncompressed %d" % (stored, unc))
        else:
            img.facts["uncompressed_meta_blocks"] += 1
    # padding / bytes_used
    img.facts["file_len"] = len(d)
    # end of the last table == bytes_used
    NONE = 0xFFFFFFFFFFFFFFFF
    if sb["xattr_table"] != NONE:
        cnt = img.facts.get("xattr_sets", 0)
        last_end = sb["xattr_table"] + 16 + ((cnt * 16 + META - 1) // META) * 8
    else:
        last_end = sb["id_table"] + ((sb["id_count"] * 4 + META - 1) // META) * 8
    img.check("sb.bytes-used-is-end-of-last-table", sb["bytes_used"] == last_end, "superblock",
              "bytes_used %d, last table ends at %d" % (sb["bytes_used"], last_end))
    # directory table: blocks are full except the last one, and it ends where the next table's data starts
    pos = sb["dir_table"]
    nxt_tables = [v for k, v in sb.items() if k in ("frag_table", "export_table", "id_table") and v != NONE]
    limit = min(nxt_tables) if nxt_tables else None
    dir_blocks = sorted(p for p in img.meta_blocks if p >= sb["dir_table"] and (limit is None or p < limit))
    # follow the chain from dir_table
    chain = []
    p = sb["dir_table"]
    seen_any = bool(dir_blocks)
    while p in img.meta_blocks and seen_any:
        hdr, stored, unc = img.meta_blocks[p]
        chain.append((p, unc))
        p = p + 2 + stored
    for i, (bp, unc) in enumerate(chain):
        # only blocks that are followed by another *directory* block must be full
        if i + 1 < len(chain):
            img.check("meta.dir-block-full", unc == META or not _is_dir_block(img, chain[i + 1][0]), "directory table block at %d" % bp, "%d bytes" % unc)
    # root
    root = img.tree.get(b"")
    if root is not None:
        img.check("dir.root-parent-field", True, "root")


def _is_dir_block(img, pos):
    """True if some directory listing starts in or continues into the metadata block at pos."""
    cache = img.__dict__.setdefault("_dirblocks", None)
    if cache is None:
        cache = set()
        base = img.sb["dir_table"]
        for path, headers in img.dir_layout.items():
            for (blk, off, consumed), cnt, start, inum, ents in headers:
                cache.add(base + blk)
        img.__dict__["_dirblocks"] = cache
    return pos in cache


def tree_model(img):
    """Plain dict model: path -> dict of fields, for comparisons."""
    out = {}
    for path, ino in img.tree.items():
        e = {"type": TYPE_NAMES[ino.base], "mode": ino.mode & 0o7777, "uid": ino.uid, "gid": ino.gid,
             "mtime": ino.mtime, "ino": ino.number, "nlink": ino.nlink,
             "xattrs": sorted(ino.xattrs or [])}
        if ino.base == T_FILE:
            e["size"] = ino.size
            e["sha256"] = ino.sha256
        elif ino.base == T_SLINK:
            e["target"] = ino.target
        elif ino.base in (T_BDEV, T_CDEV):
            e["devno"] = ino.devno
        out[path] = e
    return out


def padding_ok(img, devblk=4096):
    return len(img.data) % devblk == 0 and len(img.data) - img.sb["bytes_used"] < devblk and len(img.data) >= img.sb["bytes_used"]


# ====================================================================== writer
# Builds small images directly from a gentree-style model with *uncompressed* metadata and records the
# file offset of every on-disk field, so that hostile images are made by patching fields of a valid image.

class FieldMap:
    def __init__(self):
        self.fields = []          # (name, file_offset, size)

    def add(self, name, off, size):
        self.fields.append((name, off, size))


class _MetaStream:
    """Uncompressed metadata stream: 8 KiB chunks, each preceded by a 0x8000|len header."""

    def __init__(self):
        self.buf = bytearray()
        self.marks = []           # (name, stream offset, size)

    def tell(self):
        return len(self.buf)

    def put(self, fmt, names, *vals):
        """struct.pack with per-field marks.  names: list parallel to the fields of fmt."""
        off = len(self.buf)
        data = struct.pack("<" + fmt, *vals)
        pos = off
        for ch, nm in zip(fmt, names):
            sz = struct.calcsize("<" + ch)
            if nm:
                self.marks.append((nm, pos, sz))
            pos += sz
        self.buf += data
        return off

    def raw(self, data, name=None):
        off = len(self.buf)
        if name:
            self.marks.append((name, off, len(data)))
        self.buf += data
        return off

    @staticmethod
    def ref(stream_off):
        return ((stream_off // META) * (META + 2)) << 16 | (stream_off % META)

    def serialise(self):
        out = bytearray()
        for i in range(0, len(self.buf), META):
            chunk = self.buf[i:i + META]
            out += struct.pack("<H", 0x8000 | len(chunk)) + chunk
        return bytes(out)

    def file_offset(self, base, stream_off):
        return base + (stream_off // META) * (META + 2) + 2 + stream_off % META

    def export_marks(self, base, fmap, prefix):
        for nm, off, sz in self.marks:
            # skip fields that straddle a block boundary
            if off // META != (off + sz - 1) // META:
                continue
            fmap.add(prefix + nm, self.file_offset(base, off), sz)
        # the block headers themselves
        for i in range(0, len(self.buf), META):
            fmap.add(prefix + "blockhdr@%d" % (i // META), base + (i // META) * (META + 2), 2)


def build_image(tree, block_size=4096, comp=1, use_frags=True, exportable=True, compress_data=False, with_index=False,
                mod_time=0, dev_pad=4096, inode_order=None, extra=None, raw_names=None, entry_shuffle=None, entry_ref_override=None,
                last_inode=None, cut_inode_tail=0):
    """Returns (bytes, FieldMap, info).  tree: path -> gentree.Node ('' = root)."""
    from . import gentree
    bs = block_size
    fmap = FieldMap()
    paths = gentree.sort_paths(list(tree))
    if b"" not in tree:
        raise ValueError("no root")
    # children lists
    kids = {p: [] for p in tree if tree[p].type == "dir"}
    for p in paths:
        if p == b"":
            continue
        par = p.rsplit(b"/", 1)[0] if b"/" in p else b""
        kids[par].append(p)
    # inodes: hard links share
    primary = {p: (tree[p].link_to if tree[p].link_to is not None else p) for p in tree}
    inodes = [p for p in paths if primary[p] == p]
    # numbering: children first (post order), root last
    order = []

    def visit(p):
        if tree[p].type == "dir":
            for c in sorted(kids[p], key=lambda q: q.rsplit(b"/", 1)[-1]):
                if primary[c] == c:
                    visit(c)
        order.append(p)
    visit(b"")
    for p in inodes:
        if p not in order:
            order.append(p)
    if last_inode is not None:
        # hostile layout: this inode is stored last in the inode table (cut_inode_tail then removes the end of its record)
        order.remove(last_inode)
        order.append(last_inode)
    number = {p: i + 1 for i, p in enumerate(order)}
    nlink = {p: 0 for p in inodes}
    for p in tree:
        if p:
            nlink[primary[p]] += 1
    # ids
    ids = []
    for p in inodes:
        for v in (tree[p].uid, tree[p].gid):
            if v not in ids:
                ids.append(v)
    if not ids:
        ids = [0]
    # xattr sets
    xsets = []
    xidx = {}
    for p in inodes:
        x = tuple(sorted(tree[p].xattrs.items()))
        if x:
            if x not in xsets:
                xsets.append(x)
            xidx[p] = xsets.index(x)
    # ---- data area
    data = bytearray()
    comp_opts = b""
    if comp == 5:
        comp_opts = struct.pack("<HII", 0x8000 | 8, 1, 0)
    data_start = 96 + len(comp_opts)
    raw_names = raw_names or {}
    frag_blocks = []      # list of bytearray
    finfo = {}
    cur_frag = bytearray()
    for p in inodes:
        n = tree[p]
        if n.type != "file":
            continue
        content = gentree.spec_bytes(n.data or [])
        words = []
        start = data_start + len(data)
        nfull = len(content) // bs if use_frags else (len(content) + bs - 1) // bs
        tail = content[nfull * bs:] if use_frags else b""
        sparse = 0
        for i in range(nfull):
            blk = content[i * bs:(i + 1) * bs]
            if not any(blk):
                words.append(0)
                sparse += len(blk)
                continue
            stored, w = blk, len(blk) | (1 << 24)
            if compress_data:
                c = compress(comp, blk)
                if len(c) < len(blk):
                    stored, w = c, len(c)
            words.append(w)
            data += stored
        fi, fo = NOFRAG, 0
        if tail:
            if len(cur_frag) + len(tail) > bs:
                frag_blocks.append(cur_frag)
                cur_frag = bytearray()
            fi, fo = len(frag_blocks), len(cur_frag)
            cur_frag += tail
        finfo[p] = (start, words, fi, fo, len(content), sparse)
    if cur_frag:
        frag_blocks.append(cur_frag)
    frag_entries = []
    for fb in frag_blocks:
        frag_entries.append((data_start + len(data), len(fb) | (1 << 24)))
        data += fb
    # ---- inode sizes -> stream offsets
    def dir_listing(p, inode_off):
        """Serialise listing of dir p given inode stream offsets; returns bytes + header marks."""
        ents = sorted(kids[p], key=lambda q: q.rsplit(b"/", 1)[-1])
        if entry_shuffle is not None:
            ents = entry_shuffle(p, ents)
        out = _MetaStream()
        i = 0
        hdrs = []
        while i < len(ents):
            first = primary[ents[i]]
            blk = inode_off[first] // META
            refnum = number[first]
            run = []
            j = i
            while j < len(ents) and len(run) < 256:
                q = primary[ents[j]]
                if inode_off[q] // META != blk or abs(number[q] - refnum) > 32767:
                    break
                run.append(ents[j])
                j += 1
            hdrs.append((out.tell(), raw_names.get(run[0], run[0].rsplit(b"/", 1)[-1])))
            out.put("III", ["count", "start", "inode_number"], len(run) - 1, blk * (META + 2), refnum)
            for e in run:
                q = primary[e]
                nm = raw_names.get(e, e.rsplit(b"/", 1)[-1])
                base_t = {"dir": 1, "file": 2, "slink": 3, "bdev": 4, "cdev": 5, "fifo": 6, "sock": 7}[tree[q].type]
                out.put("HhHH", ["ent.offset", "ent.inode_delta", "ent.type", "ent.name_size"], inode_off[q] % META, number[q] - refnum, base_t, len(nm) - 1)
                out.raw(nm, "ent.name")
            i = j
        return out, hdrs

    index_info = {}

    def inode_size(p, listing_len=0):
        n = tree[p]
        has_x = p in xidx
        if n.type == "dir":
            idx = index_info.get(p, []) if with_index else []
            ext = has_x or listing_len + 3 > 0xFFFF or bool(idx)
            return 16 + (24 if ext else 16) + sum(12 + len(nm) for _, nm in idx), ext
        if n.type == "file":
            start, words, fi, fo, size, sparse = finfo[p]
            ext = has_x or nlink[p] > 1 or sparse > 0 or size >= (1 << 32) or start >= (1 << 32)
            return 16 + (40 if ext else 16) + 4 * len(words), ext
        if n.type == "slink":
            return 16 + 8 + len(n.target) + (4 if has_x else 0), has_x
        if n.type in ("bdev", "cdev"):
            return 16 + 8 + (4 if has_x else 0), has_x
        return 16 + 4 + (4 if has_x else 0), has_x

    # listing length does not depend on offsets except for header splits; iterate to a fixed point
    inode_off = {}
    listing_len = {p: 0 for p in kids}
    for _ in range(6):
        off = 0
        for p in order:
            inode_off[p] = off
            sz, _ext = inode_size(p, listing_len.get(p, 0))
            if tree[p].type == "dir" and with_index:
                pass
            off += sz
        new = {}
        new_idx = {}
        for p in kids:
            ls, hd = dir_listing(p, inode_off)
            new[p] = ls.tell()
            new_idx[p] = hd if len(hd) > 1 else []
        if new == listing_len and new_idx == index_info:
            break
        listing_len = new
        index_info.clear()
        index_info.update(new_idx)
    # ---- directory table
    dstream = _MetaStream()
    dir_pos = {}
    for p in order:
        if tree[p].type != "dir":
            continue
        ls, hdrs = dir_listing(p, inode_off)
        dir_pos[p] = dstream.tell()
        base = dstream.tell()
        for nm, o, s in ls.marks:
            dstream.marks.append(("dir[%s]." % _nm(p) + nm + "@%d" % o, base + o, s))
        dstream.buf += ls.buf
    # ---- inode table
    istream = _MetaStream()
    for p in order:
        n = tree[p]
        assert istream.tell() == inode_off[p], (p, istream.tell(), inode_off[p])
        sz, ext = inode_size(p, listing_len.get(p, 0))
        base_t = {"dir": 1, "file": 2, "slink": 3, "bdev": 4, "cdev": 5, "fifo": 6, "sock": 7}[n.type]
        t = base_t + 7 if ext else base_t
        pre = "inode[%s]." % _nm(p)
        mode = (n.mode & 0o7777) | S_IFMT[base_t]
        istream.put("HHHHII", [pre + "type", pre + "mode", pre + "uid_idx", pre + "gid_idx", pre + "mtime", pre + "number"],
                    t, mode, ids.index(n.uid), ids.index(n.gid), min(max(n.mtime or 0, 0), 0xFFFFFFFF), number[p])
        xi = xidx.get(p, NOXATTR)
        if n.type == "dir":
            par = p.rsplit(b"/", 1)[0] if b"/" in p else b""
            parent_num = number[par] if p else len(order) + 1
            size = listing_len[p] + 3 if listing_len[p] else 3
            dp = dir_pos[p]
            links = 2 + len(kids[p])
            if ext:
                idx = index_info.get(p, []) if with_index else []
                istream.put("IIIIHHI", [pre + "nlink", pre + "size", pre + "dir_block", pre + "parent", pre + "index_count", pre + "dir_offset", pre + "xattr"],
                            links, size, (dp // META) * (META + 2), parent_num, len(idx), dp % META, xi)
                for k, (hoff, nm) in enumerate(idx):
                    istream.put("III", [pre + "index%d.index" % k, pre + "index%d.start" % k, pre + "index%d.name_size" % k],
                                hoff, ((dp + hoff) // META) * (META + 2), len(nm) - 1)
                    istream.raw(nm, pre + "index%d.name" % k)
            else:
                istream.put("IIHHI", [pre + "dir_block", pre + "nlink", pre + "size", pre + "dir_offset", pre + "parent"],
                            (dp // META) * (META + 2), links, size, dp % META, parent_num)
        elif n.type == "file":
            start, words, fi, fo, size, sparse = finfo[p]
            if ext:
                istream.put("QQQIIII", [pre + "blocks_start", pre + "size", pre + "sparse", pre + "nlink", pre + "frag_idx", pre + "frag_off", pre + "xattr"],
                            start, size, sparse, nlink[p], fi, fo, xi)
            else:
                istream.put("IIII", [pre + "blocks_start", pre + "frag_idx", pre + "frag_off", pre + "size"], start, fi, fo, size)
            for k, w in enumerate(words):
                istream.put("I", [pre + "blockword%d" % k], w)
        elif n.type == "slink":
            istream.put("II", [pre + "nlink", pre + "target_size"], nlink[p], len(n.target))
            istream.raw(n.target, pre + "target")
            if ext:
                istream.put("I", [pre + "xattr"], xi)
        elif n.type in ("bdev", "cdev"):
            istream.put("II", [pre + "nlink", pre + "devno"], nlink[p], gentree.devno(*n.dev))
            if ext:
                istream.put("I", [pre + "xattr"], xi)
        else:
            istream.put("I", [pre + "nlink"], nlink[p])
            if ext:
                istream.put("I", [pre + "xattr"], xi)
    # ---- assemble
    img = bytearray(96)
    img += comp_opts
    img += data
    inode_table = len(img)
    if cut_inode_tail:
        del istream.buf[len(istream.buf) - cut_inode_tail:]
    img += istream.serialise()
    dir_table = len(img)
    img += dstream.serialise()
    istream.export_marks(inode_table, fmap, "")
    dstream.export_marks(dir_table, fmap, "")

    def lookup_table(raw, name, entsz):
        s = _MetaStream()
        for i in range(0, len(raw), entsz):
            s.raw(raw[i:i + entsz], "%s[%d]" % (name, i // entsz))
        start = len(img)
        ser = s.serialise()
        img.extend(ser)
        s.export_marks(start, fmap, "")
        loc = len(img)
        nblk = (len(raw) + META - 1) // META
        for b in range(nblk):
            fmap.add("%s.location[%d]" % (name, b), len(img), 8)
            img.extend(struct.pack("<Q", start + b * (META + 2)))
        return loc
    NONE = 0xFFFFFFFFFFFFFFFF
    frag_table = NONE
    if frag_entries:
        frag_table = lookup_table(b"".join(struct.pack("<QII", s, w, 0) for s, w in frag_entries), "frag", 16)
    export_table = NONE
    if exportable:
        export_table = lookup_table(b"".join(struct.pack("<Q", _MetaStream.ref(inode_off[p])) for p in order), "export", 8)
    id_table = lookup_table(b"".join(struct.pack("<I", i & 0xFFFFFFFF) for i in ids), "id", 4)
    xattr_table = NONE
    if xsets:
        kv = _MetaStream()
        ool = {}
        setinfo = []
        for si, xs in enumerate(xsets):
            startoff = kv.tell()
            total = 0
            for k, v in xs:
                pfx = next(i for i, q in enumerate((b"user.", b"trusted.", b"security.")) if k.startswith(q))
                name = k[len((b"user.", b"trusted.", b"security.")[pfx]):]
                if v in ool and len(v) > 8:
                    kv.put("HH", ["xattr[%d].type" % si, "xattr[%d].name_size" % si], pfx | 0x100, len(name))
                    kv.raw(name)
                    kv.put("IQ", ["xattr[%d].ool_size" % si, "xattr[%d].ool_ref" % si], 8, _MetaStream.ref(ool[v]))
                    total += 4 + len(name) + 4 + 8
                else:
                    kv.put("HH", ["xattr[%d].type" % si, "xattr[%d].name_size" % si], pfx, len(name))
                    kv.raw(name)
                    ool.setdefault(v, kv.tell())
                    kv.put("I", ["xattr[%d].value_size" % si], len(v))
                    kv.raw(v)
                    total += 4 + len(name) + 4 + len(v)
            setinfo.append((_MetaStream.ref(startoff), len(xs), total))
        kv_start = len(img)
        img.extend(kv.serialise())
        kv.export_marks(kv_start, fmap, "")
        idraw = b"".join(struct.pack("<QII", r, c, s) for r, c, s in setinfo)
        s = _MetaStream()
        for i, (r, c, sz) in enumerate(setinfo):
            s.put("QII", ["xattr_id[%d].ref" % i, "xattr_id[%d].count" % i, "xattr_id[%d].size" % i], r, c, sz)
        idstart = len(img)
        img.extend(s.serialise())
        s.export_marks(idstart, fmap, "")
        xattr_table = len(img)
        fmap.add("xattr_table.kv_start", len(img), 8)
        fmap.add("xattr_table.count", len(img) + 8, 4)
        img.extend(struct.pack("<QII", kv_start, len(setinfo), 0))
        for b in range((len(idraw) + META - 1) // META):
            fmap.add("xattr_table.location[%d]" % b, len(img), 8)
            img.extend(struct.pack("<Q", idstart + b * (META + 2)))
    bytes_used = len(img)
    flags = F_UNCOMP_INODES | F_UNCOMP_FRAGS | F_UNCOMP_XATTRS | F_UNCOMP_IDS | F_DUPLICATES
    if not compress_data:
        flags |= F_UNCOMP_DATA
    if exportable:
        flags |= F_EXPORTABLE
    if not xsets:
        flags |= F_NO_XATTRS
    if not frag_entries:
        flags |= F_NO_FRAGS
    if comp_opts:
        flags |= F_COMP_OPTS
    log = bs.bit_length() - 1
    names = ["magic", "inode_count", "mod_time", "block_size", "frag_count", "compressor", "block_log", "flags", "id_count", "vmaj", "vmin",
             "root", "bytes_used", "id_table", "xattr_table", "inode_table", "dir_table", "frag_table", "export_table"]
    fmt = "IIIIIHHHHHHQQQQQQQQ"
    vals = [MAGIC, len(order), mod_time, bs, len(frag_entries), comp, log, flags, len(ids), 4, 0, _MetaStream.ref(inode_off[b""]), bytes_used,
            id_table, xattr_table, inode_table, dir_table, frag_table, export_table]
    img[0:96] = struct.pack("<" + fmt, *vals)
    pos = 0
    for ch, nm in zip(fmt, names):
        sz = struct.calcsize("<" + ch)
        fmap.add("sb." + nm, pos, sz)
        pos += sz
    if dev_pad and len(img) % dev_pad:
        img.extend(bytes(dev_pad - len(img) % dev_pad))
    info = {"inode_off": inode_off, "number": number, "order": order, "inode_table": inode_table, "dir_table": dir_table,
            "dir_pos": dir_pos, "ref": {p: _MetaStream.ref(o) for p, o in inode_off.items()}, "bytes_used": bytes_used}
    return bytes(img), fmap, info


def chain_image(depth, block_size=4096, name=b"d", leaf_file=False):
    """A completely valid image d/d/d/.../d with `depth` nested directories (one entry each), written without building path strings.
    `name` is the (identical) name of every directory; with a long name the deepest path gets very long.  leaf_file puts an empty
    regular file "f" into the deepest directory."""
    N = depth + 1                                  # directory inodes; number k (1 = deepest) ; root = N
    base = 32 if leaf_file else 0                  # the file inode (number N + 1) sits in front of the directory inodes
    ent = 20 + len(name)
    leaf = 21 if leaf_file else 0                  # listing of the deepest directory
    ino = bytearray()
    dirs = bytearray()
    if leaf_file:
        ino += struct.pack("<HHHHII", 2, 0o644 | 0o100000, 0, 0, 0, N + 1) + struct.pack("<IIII", 0, 0xFFFFFFFF, 0, 0)
        dirs += struct.pack("<III", 0, 0, N + 1) + struct.pack("<HhHH", 0, 0, 2, 0) + b"f"
    for k in range(1, N + 1):
        if k == 1:
            size, doff, links = leaf + 3, 0, 2
        else:
            doff = leaf + ent * (k - 2)
            size, links = ent + 3, 3
        ino += struct.pack("<HHHHII", 1, 0o755 | 0o040000, 0, 0, 0, k)
        ino += struct.pack("<IIHHI", (doff // META) * (META + 2), links, size, doff % META, k + 1 if k < N else N + 2)
        if k >= 2:
            child_off = base + 32 * (k - 2)
            dirs += struct.pack("<III", 0, (child_off // META) * (META + 2), k - 1)
            dirs += struct.pack("<HhHH", child_off % META, 0, 1, len(name) - 1) + name

    def ser(buf):
        out = bytearray()
        for i in range(0, len(buf), META):
            chunk = buf[i:i + META]
            out += struct.pack("<H", 0x8000 | len(chunk)) + chunk
        return out
    img = bytearray(96)
    inode_table = len(img)
    img += ser(ino)
    dir_table = len(img)
    img += ser(dirs)
    idblk = len(img)
    img += struct.pack("<H", 0x8000 | 4) + struct.pack("<I", 0)
    id_table = len(img)
    img += struct.pack("<Q", idblk)
    bytes_used = len(img)
    NONE = 0xFFFFFFFFFFFFFFFF
    flags = F_UNCOMP_INODES | F_UNCOMP_FRAGS | F_UNCOMP_XATTRS | F_UNCOMP_IDS | F_UNCOMP_DATA | F_DUPLICATES | F_NO_XATTRS | F_NO_FRAGS
    root_off = base + 32 * (N - 1)
    img[0:96] = struct.pack("<IIIIIHHHHHHQQQQQQQQ", MAGIC, N + (1 if leaf_file else 0), 0, block_size, 0, 1, block_size.bit_length() - 1, flags, 1, 4, 0,
                            ((root_off // META) * (META + 2)) << 16 | (root_off % META), bytes_used, id_table, NONE, inode_table, dir_table, NONE, NONE)
    if len(img) % 4096:
        img += bytes(4096 - len(img) % 4096)
    return bytes(img)


def _nm(p):
    return (p.decode("latin1") if p else "/")[:40]


def patch(img, off, size, value):
    b = bytearray(img)
    b[off:off + size] = (value & ((1 << (8 * size)) - 1)).to_bytes(size, "little")
    return bytes(b)
