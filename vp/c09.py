"""C09 worker pool: controlled-scheduler enumeration of the unmodified pool, the block processor on the controlled pool,
and real threads under ThreadSanitizer."""
import os, re, traceback
from . import core, build

PROP = "C09"
TP = os.path.join(core.REPO, "lib/util/src/threadpool.c")
VS = os.path.join(core.VERIF, "rt/vsched.c")
VSH = os.path.join(core.VERIF, "rt/vsched.h")


def exes():
    pool = build.build_harness("plain", "pool_sched", [os.path.join(core.VERIF, "harness/pool_sched.c"), VS],
                               pre_objs=[(TP, ["-include", VSH])])
    blk = build.build_harness("asan", "blkproc_sched", [os.path.join(core.VERIF, "harness/blkproc_harness.c"), VS],
                              extra_cflags=["-DSCHED"], pre_objs=[(TP, ["-include", VSH])])
    blkref = build.build_harness("serial", "blkproc_ref", [os.path.join(core.VERIF, "harness/blkproc_harness.c")])
    stress = build.build_harness("tsan", "pool_stress", [os.path.join(core.VERIF, "harness/pool_stress.c")])
    return pool, blk, blkref, stress


def kv(line):
    return dict(x.split("=", 1) for x in line.split()[1:] if "=" in x)


def run_pool(arg):
    exe, args, tag = arg
    oc = core.Outcome(tag)
    try:
        r = core.run_tool([exe] + args, timeout=1800, binary="pool_sched", pin_cpu=True)
        out = r.out.decode(errors="replace")
        m = re.search(r"^RESULT .*$", out, re.M)
        for v in re.finditer(r"^VIOL (\S+) (.*)$", out, re.M):
            oc.violate("pool:%s" % v.group(1), "%s (replay: pool_sched replay W N f pat <schedule>)" % v.group(2)[:400], {"output.txt": out[:20000]})
        d = re.search(r"^DEADLOCK (.*)$", out, re.M)
        if d:
            oc.violate("pool:deadlock:%s" % tag.split()[0], "args %s: %s" % (" ".join(args), d.group(1)[:600]), {"output.txt": out[:20000]})
        elif r.san:
            oc.violate(r.san, " ".join(args), {"stderr.txt": r.err})
        elif r.hang:
            oc.inconclusive.append("watchdog: %s" % " ".join(args))
        elif not m:
            oc.inconclusive.append("no RESULT line rc=%s %s" % (r.rc, r.err[-200:]))
        if m:
            k = kv(m.group(0))
            oc.inc("executions", int(k["execs"]))
            oc.inc("distinct_schedules", int(k["distinct"]))
            oc.inc("scenarios_enumerated_completely", int(k["complete"]))
            oc.inc("spurious_wakeups_taken", int(k["spurious"]))
            oc.counters["max_choice_points"] = int(k["maxchoices"])
            oc.counters["max_preemptions"] = int(k["maxpreempt"])
            oc.sample = k
            oc.features = (k["mode"], k["P"], k["W"], k["N"], k["f"], k["pat"], k["spur"])
    except Exception:
        oc.inconclusive.append("harness exception: %s" % traceback.format_exc()[-600:])
    return oc


def run_blk(arg):
    blk, blkref, scen, W, Q, mode, a, b = arg
    tag = "blkproc %s W=%d Q=%d %s" % (scen, W, Q, mode)
    oc = core.Outcome(tag, features=("blkproc", scen, W, Q, mode))
    try:
        ref = core.run_tool([blkref, "ref", scen, "1", str(Q)], timeout=120, binary="blkproc_ref")
        mref = re.search(rb"OUT .*status=(-?\d+) hash=([0-9a-f]+)", ref.out)
        if not mref:
            oc.inconclusive.append("no reference: %s" % ref.err[-200:])
            return oc
        r = core.run_tool([blk, mode, str(a), str(b), scen, str(W), str(Q)], timeout=1800, binary="blkproc_sched", pin_cpu=True)
        out = r.out.decode(errors="replace")
        d = re.search(r"^DEADLOCK (.*)$", out, re.M)
        if d:
            oc.violate("blkproc:deadlock:%s" % scen, "%s: %s" % (tag, d.group(1)[:600]), {"output.txt": out[:20000]})
            return oc
        if r.san:
            oc.violate(r.san, tag, {"stderr.txt": r.err})
            return oc
        m = re.search(r"^OUTS .*$", out, re.M)
        if not m:
            oc.inconclusive.append("no OUTS line rc=%s %s" % (r.rc, r.err[-300:]))
            return oc
        k = kv(m.group(0))
        oc.inc("blkproc_executions", int(k["execs"]))
        oc.inc("blkproc_schedules", int(k["schedules"]))
        refstatus = int(mref.group(1))
        if scen.startswith("fail"):
            # every execution must end in an error status (hash field carries the negative status)
            lo, hi = int(k["first"], 16), int(k["last"], 16)
            if lo < (1 << 63) or hi < (1 << 63):
                oc.violate("blkproc:failure-not-reported:%s" % scen, "%s: some execution finished with status 0 although a compressor call failed" % tag)
            if refstatus == 0:
                oc.violate("blkproc:serial-reference-misses-failure:%s" % scen, tag)
            oc.inc("blkproc_failure_scenarios")
        else:
            if int(k["results"]) != 1 or k["first"] != mref.group(2).decode():
                oc.violate("blkproc:result-depends-on-schedule:%s" % scen, "%s: %s distinct results, first %s, serial reference %s" % (tag, k["results"], k["first"], mref.group(2).decode()))
            else:
                oc.inc("blkproc_equal_to_serial")
        oc.sample = k
    except Exception:
        oc.inconclusive.append("harness exception: %s" % traceback.format_exc()[-600:])
    return oc


def run_stress(arg):
    exe, rounds, seed = arg
    oc = core.Outcome("stress-%d" % seed, features=("tsan-stress", seed))
    r = core.run_tool([exe, str(rounds), str(seed)], timeout=240 if rounds < 50 else 1500, binary="pool_stress",
                      env={"TSAN_OPTIONS": "halt_on_error=0:exitcode=98"})
    out = r.out.decode(errors="replace")
    n = r.err.count(b"WARNING: ThreadSanitizer")
    if n:
        m = re.search(rb"WARNING: ThreadSanitizer: ([^\n(]*)", r.err)
        oc.violate("tsan:%s:%s" % (m.group(1).decode().strip().replace(" ", "-"), core._first_project_frame(r.err)), "%d reports" % n, {"tsan.txt": r.err[:20000]})
    for v in re.finditer(r"^VIOL (\S+)", out, re.M):
        oc.violate("pool-stress:%s" % v.group(1), out[:300])
    m = re.search(r"RESULT rounds=(\d+) items=(\d+) failed_rounds=(\d+)", out)
    if m:
        oc.inc("tsan_rounds", int(m.group(1)))
        oc.inc("tsan_items", int(m.group(2)))
        oc.inc("tsan_failure_rounds", int(m.group(3)))
    elif r.hang:
        oc.violate("pool-stress:hang", "real-thread stress did not finish")
    elif not oc.violations:
        oc.inconclusive.append("no RESULT rc=%s %s" % (r.rc, r.err[-200:]))
    oc.sample = {"stress": out.strip()[-200:]}
    return oc


def main(tier):
    rep = core.Report(PROP, tier, "exploration",
                      "executions of the unmodified lib/util/src/threadpool.c under a cooperative scheduler that makes every pthread call a scheduling point: "
                      "scenarios = workers W x items N x failing item f x client pattern; depth-first enumeration with preemption bound P "
                      "(complete, unbounded enumeration for W=1,N=1), random walks with spurious wake-ups for the larger ones; "
                      "plus the real block processor on the same controlled pool against the serial pool's result, plus real threads under TSan. "
                      "evaluations = executions; distinct = distinct schedules (decision strings)")
    pool, blk, blkref, stress = exes()
    items = []
    quick = tier == "quick"
    pats = range(5)
    # complete enumeration of the smallest configuration (no preemption bound)
    for f in (-1, 0):
        for pat in pats:
            items.append((pool, ["dfs", "-1", "2000000", "0", "1", "1", str(f), str(pat)], "complete W=1 N=1 f=%d pat=%d" % (f, pat)))
    # with one spurious wake-up as an explicit choice
    for f in (-1, 0):
        items.append((pool, ["dfs", "2" if quick else "-1", "300000" if quick else "3000000", "1", "1", "1", str(f), "0"], "spurious W=1 N=1 f=%d" % f))
    # preemption-bounded enumeration
    P = 2 if quick else 3
    cap = 30000 if quick else 600000
    for W in (1, 2):
        for N in (1, 2, 3):
            for f in [-1] + list(range(N)):
                for pat in pats:
                    if quick and W == 2 and N == 3 and pat in (2, 4):
                        continue
                    items.append((pool, ["dfs", str(P), str(cap), "0", str(W), str(N), str(f), str(pat)], "bounded W=%d N=%d f=%d pat=%d" % (W, N, f, pat)))
    if not quick:
        for N in (1, 2, 3, 4):
            for f in (-1, 0, N - 1):
                for pat in (0, 1, 3):
                    items.append((pool, ["dfs", "2", "400000", "0", "3", str(N), str(f), str(pat)], "bounded W=3 N=%d f=%d pat=%d" % (N, f, pat)))
    # random walks, spurious wake-ups allowed
    nr = 1500 if quick else 60000
    for W, N in ((3, 4), (3, 5), (2, 5), (1, 5)):
        for f in (-1, 0, 2, N - 1):
            for pat in ((0, 4) if quick else pats):
                items.append((pool, ["rand", str(nr), str(core.SEED * 7919 + W * 100 + N * 10 + pat), "2", str(W), str(N), str(f), str(pat)],
                              "random W=%d N=%d f=%d pat=%d" % (W, N, f, pat)))
    for oc in core.pmap(run_pool, items):
        rep.add(oc)
    # block processor on the controlled pool
    bitems = []
    scens = ["two-files", "tails", "sparse", "dups", "fail-first", "fail-mid", "fail-last", "fail-frag", "fail-final-frag", "fail-final-frag-only", "fail-last-block-then-frag", "many"]
    for sc in scens:
        for W, Q in ((1, 3), (2, 3), (2, 6), (3, 4)):
            if quick and (W, Q) == (3, 4) and sc not in ("fail-mid", "two-files"):
                continue
            bitems.append((blk, blkref, sc, W, Q, "dfs", 1 if quick else 2, 3000 if quick else 100000))
            bitems.append((blk, blkref, sc, W, Q, "rand", 300 if quick else 20000, core.SEED * 31 + W))
    for oc in core.pmap(run_blk, bitems):
        rep.add(oc)
    # real threads under TSan
    for oc in core.pmap(run_stress, [(stress, 12 if quick else 120, core.SEED * 100 + i) for i in range(16)]):
        rep.add(oc)
    rep.extra["scenarios"] = len(items)
    rep.extra["blkproc_scenarios"] = len(bitems)
    rep.evaluations = rep.counters.get("executions", 0) + rep.counters.get("blkproc_executions", 0)
    rep.distinct_override = rep.counters.get("distinct_schedules", 0) + rep.counters.get("blkproc_schedules", 0)
    rep.exhaustive = False
    rep.extra["exhaustive_part"] = "W=1,N=1 (all failure positions, all client patterns) enumerated completely without preemption bound: %d scenarios" % rep.counters.get("scenarios_enumerated_completely", 0)
    rep.required_nonzero = ["executions", "scenarios_enumerated_completely", "spurious_wakeups_taken", "blkproc_equal_to_serial", "blkproc_failure_scenarios", "tsan_items"]
    rep.assumptions = ["scheduling granularity = pthread mutex/cond/create/join calls plus explicit points in the worker callback; sequential consistency between them (TSan covers the memory model on observed runs)",
                       "under a worker failure the oracle is: at-most-once processing and hand-back, prefix order, status reported, no call blocks"]
    return rep.finish()
