"""C02 determinism: differential bytes against the serial build, ordering checker over
the hook log, TSan, (thorough) valgrind memcheck for uninitialised bytes reaching pwrite."""
import os, re, subprocess, traceback, shutil, collections
from . import core, build, gentree
from .gentree import Node

PROP = "C02"
F_FIRST, F_LAST, F_ISFRAG, F_FRAGBLK = 0x0800, 0x1000, 0x2000, 0x4000
F_MANUAL = 0x10000000


def make_input(r, kind, bs):
    t = {b"": Node("dir", 0o755)}
    if kind == "alternating":
        # multi-block files whose blocks alternate between incompressible (slow) and zero (instant)
        for i in range(r.choice([6, 10])):
            segs = []
            for k in range(r.choice([4, 7, 9])):
                segs.append(("rand", r.getrandbits(40), bs) if (k + i) % 2 == 0 else ("zero", bs))
            segs.append(("rand", r.getrandbits(40), r.randrange(1, bs)))
            t[b"f%02d" % i] = Node("file", 0o644, data=segs)
    elif kind == "smallfiles":
        # many small files: fragment blocks overflow while data blocks are in flight
        for i in range(r.choice([150, 300])):
            t[b"s%03d" % i] = Node("file", 0o644, data=[("rand", r.getrandbits(40), r.choice([1, bs // 7, bs // 3, bs // 2, bs - 1]))])
        for i in range(5):
            t[b"big%d" % i] = Node("file", 0o644, data=[("rep", b"compressible text %d " % i, 5 * bs + 17)])
    elif kind == "duplicates":
        blobs = [[("rand", 100 + j, 2 * bs + 100)] for j in range(4)] + [[("rand", 200 + j, bs // 3)] for j in range(4)]
        for i in range(60):
            t[b"d%02d" % i] = Node("file", 0o644, data=r.choice(blobs))
    elif kind == "strategy-mix":
        # multi-block files whose blocks favour different compressor strategies/filters: exposes per-worker compressor state
        for i in range(6):
            segs = []
            for k in range(r.choice([12, 24])):
                segs.append((r.choice(["words", "skew", "runs", "rand"]), r.getrandbits(40), bs))
            t[b"m%02d" % i] = Node("file", 0o644, data=segs)
    elif kind == "frag-dups":
        # many distinct incompressible tails spread over several fragment blocks, then duplicates of earlier
        # ones in random order (so that compared fragment blocks are on disk, in flight or current depending on -Q)
        n = r.choice([30, 50])
        blobs = [[("rand", 1000 + j, r.choice([bs // 3, bs // 2 - 1, bs - 7, bs // 5]))] for j in range(n)]
        for j in range(n):
            t[b"a%03d" % j] = Node("file", 0o644, data=blobs[j])
        for j in range(n):
            t[b"b%03d" % j] = Node("file", 0o644, data=blobs[r.randrange(n)])
            if j % 7 == 0:
                t[b"b%03d_big" % j] = Node("file", 0o644, data=[("rand", 5000 + j, 3 * bs)] + blobs[r.randrange(n)])
    elif kind == "mixed":
        tr, _ = gentree.gen_tree(r, bs=bs, max_entries=60)
        for p, n in tr.items():
            if n.type in ("file", "dir") and n.link_to is None:
                n.uid = n.gid = 0
                n.xattrs = {}
                t[p] = n
        for p in list(t):
            for par in gentree.parents(p):
                t.setdefault(par, Node("dir", 0o755))
    elif kind == "sparse-tails":
        for i in range(40):
            t[b"z%02d" % i] = Node("file", 0o644, data=[("rand", r.getrandbits(40), bs * r.choice([1, 2])), ("zero", r.choice([1, bs // 2, bs, bs + 1]))])
        for i in range(40):
            t[b"y%02d" % i] = Node("file", 0o644, data=[("zero", r.choice([1, 100, bs - 1]))])
    return t


KINDS = ["alternating", "smallfiles", "duplicates", "mixed", "sparse-tails", "frag-dups", "strategy-mix"]


def check_eventlog(path, oc, tag):
    """Ordering invariants over one run's hook log."""
    try:
        with open(path) as f:
            lines = f.read().split("\n")
    except OSError:
        oc.inconclusive.append("no event log for %s" % tag)
        return
    ev = []
    for l in lines:
        if not l or l[0] == "#":
            if l.startswith("# dropped") and int(l.split()[2]) > 0:
                oc.inconclusive.append("event log overflow")
                return
            continue
        p = l.split()
        ev.append(tuple(int(x) for x in p))
    submit, take, done, store, release = {}, {}, {}, [], []
    main_tid = None
    writes = []
    ioseq = []
    overflow = {}
    for seq, tid, kind, a, b, c in ev:
        if kind == 1:
            if a in submit:
                oc.violate("order:ticket-submitted-twice", "%s ticket %d" % (tag, a))
            submit[a] = tid
            if main_tid is None:
                main_tid = tid
            elif tid != main_tid:
                oc.violate("order:submit-from-two-threads", tag)
        elif kind == 2:
            if a in take:
                oc.violate("order:item-processed-twice", "%s ticket %d" % (tag, a))
            take[a] = b
        elif kind == 3:
            done[a] = b
        elif kind == 4:
            store.append(a)
        elif kind == 5:
            release.append(a)
        elif kind == 10:
            ioseq.append((a, b, c, tid))
        elif kind == 11:
            writes.append((a, b, c, tid))
        elif kind == 14:
            overflow[a] = b
    oc.inc("ev_tickets", len(submit))
    if release != sorted(release) or release != list(range(len(release))):
        oc.violate("order:release-not-in-submission-order", "%s first tickets %r" % (tag, release[:20]))
    if set(release) - set(store):
        oc.violate("order:released-without-completion", tag)
    inv = sum(1 for i in range(1, len(store)) if store[i] < store[i - 1])
    oc.inc("ev_completion_inversions", inv)
    if store:
        oc.inc("ev_max_displacement", max(abs(t - i) for i, t in enumerate(store)))
    # I/O sequence numbers: assigned by one thread, written 0,1,2,.. without gaps
    ws = [w[0] for w in writes]
    if ws != list(range(len(ws))):
        oc.violate("order:io-sequence-gap-or-reorder", "%s written sequence %r" % (tag, ws[:30]))
    if main_tid is not None and any(w[3] != main_tid for w in writes + ioseq):
        oc.violate("order:io-from-worker-thread", tag)
    # a file's blocks are contiguous: no fragment block / foreign FIRST between FIRST and LAST
    open_file = False
    for s, fl, size, tid in writes:
        if fl & F_FRAGBLK:
            if open_file:
                oc.violate("order:fragment-block-inside-file", "%s seq %d" % (tag, s))
            continue
        if fl & F_FIRST:
            if open_file:
                oc.violate("order:file-blocks-interleaved", "%s seq %d" % (tag, s))
            open_file = True
        if fl & F_LAST:
            open_file = False
    # fragment blocks keep the sequence number assigned at overflow time
    for s, fl, idx, tid in ioseq:
        if (fl & F_FRAGBLK) and not (fl & F_MANUAL) and idx in overflow:
            oc.inc("ev_fragblock_seq_checked")
            if overflow[idx] != s:
                oc.violate("order:fragment-block-seq-changed", "%s index %d overflow seq %d io seq %d" % (tag, idx, overflow[idx], s))
    oc.inc("ev_blocks_written", len(writes))
    return store


def run_input(arg):
    idx, tier = arg
    oc = core.Outcome("input-%d" % idx)
    try:
        plain = build.build("plain")
        serial = build.build("serial")
        tsan = build.build("tsan")
        r = core.rng_for(PROP, "input", idx)
        kind = KINDS[idx % len(KINDS)]
        comp, extra = r.choice([("xz", []), ("zstd", ["level=19"]), ("gzip", []), ("xz", ["extreme"]), ("lz4", ["hc"]), ("lzma", []),
                                ("gzip", ["default", "filtered", "huffman", "rle", "fixed"]), ("gzip", ["huffman", "rle"]),
                                ("xz", ["x86", "arm", "sparc"]), ("xz", ["extreme", "powerpc"]), ("lzma", ["extreme"]), ("gzip", ["level=1", "filtered", "fixed"])])
        if kind == "strategy-mix":
            comp, extra = [("gzip", ["default", "filtered", "huffman", "rle", "fixed"]), ("xz", ["x86", "arm", "sparc", "extreme"]),
                           ("gzip", ["huffman", "rle", "level=3"]), ("lzma", ["extreme"])][(idx // len(KINDS)) % 4]
        bs = r.choice([4096, 8192, 16384, 32768])
        oc.features = (kind, comp, bs)
        with core.Scratch("c02") as work:
            tree = make_input(r, kind, bs)
            root = os.path.join(work, "in")
            gentree.materialise_dir(tree, root)
            tarf = os.path.join(work, "in.tar")
            subprocess.run(["/usr/bin/tar", "--sort=name", "--mtime=@1500000000", "--owner=0", "--group=0", "--numeric-owner",
                            "-cf", tarf, "-C", root, "."], check=True)
            base = ["-c", comp, "-b", str(bs), "-q"] + (["-X", ",".join(extra)] if extra else [])
            env0 = {"SOURCE_DATE_EPOCH": "1400000000"}
            perms = set()

            def gens(binaries, extra_args, env, tag, evlog=True, cwd=None, timeout=300):
                out = os.path.join(work, "o_%s.sqfs" % tag)
                e = dict(env0)
                e.update(env)
                if evlog:
                    e["VERIF_EVLOG"] = os.path.join(work, "ev_%s" % tag)
                    e["VERIF_COUNT"] = os.path.join(work, "cnt_%s" % tag)
                res = core.run_tool([binaries["gensquashfs"]] + base + extra_args + ["-D", root, "-f", out], env=e, timeout=timeout, cwd=cwd)
                oc.inc("runs")
                return res, out

            def t2s(binaries, extra_args, env, tag, evlog=True):
                out = os.path.join(work, "t_%s.sqfs" % tag)
                e = dict(env0)
                e.update(env)
                if evlog:
                    e["VERIF_EVLOG"] = os.path.join(work, "ev_%s" % tag)
                res = core.run_tool([binaries["tar2sqfs"]] + base + extra_args + ["-f", out], env=e, timeout=300, stdin_file=tarf)
                oc.inc("runs")
                return res, out

            ref_g, ref_gp = gens(serial, [], {}, "ref", evlog=False)
            ref_t, ref_tp = t2s(serial, [], {}, "tref", evlog=False)
            if ref_g.rc != 0 or ref_t.rc != 0:
                oc.inconclusive.append("reference run failed: %s %s" % (ref_g.err[-200:], ref_t.err[-200:]))
                return oc
            sha_g, sha_t = core.sha_file(ref_gp), core.sha_file(ref_tp)
            os.unlink(ref_gp)
            os.unlink(ref_tp)

            def judge(res, out, sha, tag, what):
                if res.san:
                    oc.violate(res.san, "%s %s" % (what, tag), {"stderr.txt": res.err})
                    return
                if res.hang:
                    oc.violate("determinism:hang:%s" % what, tag)
                    return
                if res.rc != 0:
                    oc.violate("determinism:%s-fails-where-serial-succeeds" % what, "%s rc=%d %s" % (tag, res.rc, res.err[-200:]))
                    return
                s = core.sha_file(out)
                os.unlink(out)
                if s != sha:
                    oc.violate("determinism:%s-bytes-differ:%s" % (what, tag.split("-")[0]), "%s: sha %s vs serial %s (input %s %s bs=%d)" % (tag, s[:12], sha[:12], kind, comp, bs))
                else:
                    oc.inc("identical_images")
                evp = os.path.join(work, "ev_%s" % tag)
                if os.path.exists(evp):
                    st = check_eventlog(evp, oc, tag)
                    if st:
                        perms.add(tuple(st[:64]))
                    os.unlink(evp)
                cp = os.path.join(work, "cnt_%s" % tag)
                if os.path.exists(cp):
                    with open(cp) as f:
                        m = re.search(r"clock (\d+)", f.read())
                    if m:
                        oc.inc("wallclock_calls", int(m.group(1)))
                        if int(m.group(1)) != 0:
                            oc.notes.append("packer called a wall clock API %s times" % m.group(1))
                    os.unlink(cp)

            jq = [(1, 1), (2, 1), (2, 2), (3, 5), (4, None), (8, 3), (16, None), (64, None), (None, None), (4, 1000), (16, 2), (3, 10)]
            if tier == "thorough":
                jq += [(j, q) for j in (1, 2, 5, 7, 32) for q in (1, 3, 50)]
            for j, q in jq:
                a = (["-j", str(j)] if j else []) + (["-Q", str(q)] if q else [])
                res, out = gens(plain, a, {}, "jq-%s-%s" % (j, q))
                judge(res, out, sha_g, "jq-%s-%s" % (j, q), "gensquashfs")
                oc.inc("cfg_jq")
            nseeds = 10 if tier == "quick" else 40
            for s in range(nseeds):
                mode = s % 6          # 0-3: delays in the workers; 4, 5: the submitting thread stalls after handing an item over
                env = {"VERIF_DELAY": "%d:%d" % (mode, core.SEED * 100 + s), "VERIF_SPURIOUS": "%d:%d" % (r.choice([5, 20, 50]), s)}
                j = r.choice([2, 3, 4, 8])
                q = r.choice([None, 1, 2, 4])
                a = ["-j", str(j)] + (["-Q", str(q)] if q else [])
                if s % 3 == 0:
                    res, out = t2s(plain, a, env, "perturb-t%d" % s)
                    judge(res, out, sha_t, "perturb-t%d" % s, "tar2sqfs")
                else:
                    res, out = gens(plain, a, env, "perturb-%d" % s)
                    judge(res, out, sha_g, "perturb-%d" % s, "gensquashfs")
                oc.inc("cfg_perturbed")
            # environment variation
            envs = [{"TZ": "Asia/Kolkata", "LC_ALL": "tr_TR.UTF-8", "LANG": "tr_TR.UTF-8"}, {"TZ": "America/Los_Angeles", "LC_ALL": "C"},
                    {"VERIF_CLOCK_OFFSET": "86400000", "HOME": "/nonexistent"}, {"VERIF_UMASK": "077", "VERIF_CLOCK_OFFSET": "-1000000"}]
            for i, env in enumerate(envs):
                cwd = work if i % 2 else "/"
                old = os.umask(0o077 if "VERIF_UMASK" in env else 0o022)
                try:
                    res, out = gens(plain, ["-j", "4"], env, "env-%d" % i, cwd=cwd)
                    judge(res, out, sha_g, "env-%d" % i, "gensquashfs")
                    res, out = t2s(plain, ["-j", "4"], env, "env-t%d" % i)
                    judge(res, out, sha_t, "env-t%d" % i, "tar2sqfs")
                finally:
                    os.umask(old)
                oc.inc("cfg_env")
            # TSan
            nts = 1 if tier == "quick" else 3
            for i in range(nts):
                out = os.path.join(work, "ts.sqfs")
                res = core.run_tool([tsan["gensquashfs"]] + base + ["-j", str(r.choice([4, 8, 16])), "-Q", str(r.choice([2, 8, 40])), "-D", root, "-f", out],
                                    env=dict(env0, TSAN_OPTIONS="halt_on_error=0:exitcode=98:second_deadlock_stack=1"), timeout=600)
                oc.inc("tsan_runs")
                reports = res.err.count(b"WARNING: ThreadSanitizer")
                if reports:
                    m = re.search(rb"WARNING: ThreadSanitizer: ([^\n(]*)", res.err)
                    fn = core._first_project_frame(res.err)
                    oc.violate("tsan:%s:%s" % (m.group(1).decode().strip().replace(" ", "-"), fn), "%d reports" % reports, {"tsan.txt": res.err[:20000]})
                elif res.rc == 0 and core.sha_file(out) != sha_g:
                    oc.violate("determinism:gensquashfs-bytes-differ:tsan", "tsan build output differs from serial")
                elif res.rc != 0:
                    oc.inconclusive.append("tsan run rc=%s %s" % (res.rc, res.err[-200:]))
            oc.inc("distinct_completion_orders", len(perms))
            oc.sample = {"input": kind, "comp": comp, "extra": extra, "bs": bs, "files": len(tree),
                         "distinct_completion_orders": len(perms), "serial_sha": sha_g[:16]}
    except Exception:
        oc.inconclusive.append("harness exception: %s" % traceback.format_exc()[-800:])
    return oc


def valgrind_case(idx):
    oc = core.Outcome("valgrind-%d" % idx, features=("valgrind", idx))
    try:
        val = build.build("val")
        r = core.rng_for(PROP, "val", idx)
        with core.Scratch("c02v") as work:
            tree = make_input(r, KINDS[idx % len(KINDS)], 4096)
            root = os.path.join(work, "in")
            gentree.materialise_dir(tree, root)
            out = os.path.join(work, "o.sqfs")
            comp = ["gzip", "xz", "zstd", "lz4"][idx % 4]
            res = core.run_tool(["valgrind", "-q", "--error-exitcode=97", "--track-origins=no", val["gensquashfs"], "-c", comp, "-b", "4096", "-q",
                                 "-j", "3", "-D", root, "-f", out], timeout=1800)
            oc.inc("valgrind_runs")
            if b"points to uninitialised byte" in res.err:
                oc.violate("valgrind:uninitialised-bytes-written", res.err[:400].decode(errors="replace"), {"valgrind.txt": res.err[:20000]})
            elif res.rc == 97:
                oc.notes.append("valgrind reported: %s" % res.err[:200])
            oc.sample = {"valgrind": comp, "rc": res.rc}
    except Exception:
        oc.inconclusive.append("harness exception: %s" % traceback.format_exc()[-600:])
    return oc


def main(tier):
    rep = core.Report(PROP, tier, "exploration",
                      "each evaluation = one input tree (built to make completion order differ from submission order) run through "
                      "gensquashfs and tar2sqfs under many (-j,-Q) settings, seeded delay/spurious-wakeup perturbations and environments, compared byte for byte "
                      "with the NO_THREAD_IMPL serial build; every run's hook log is checked for the ordering invariants; distinct = distinct (input kind, compressor, block size)")
    for v in ("plain", "serial", "tsan"):
        build.build(v)
    n = 14 if tier == "quick" else 42
    items = [(i, tier) for i in range(n)]
    for oc in core.pmap(run_input, items):
        rep.add(oc)
    if tier == "thorough":
        build.build("val")
        for oc in core.pmap(valgrind_case, range(4)):
            rep.add(oc)
    rep.extra["inputs"] = rep.evaluations
    rep.evaluations = rep.counters.get("runs", 0) + rep.counters.get("tsan_runs", 0) + rep.counters.get("valgrind_runs", 0)
    rep.distinct_override = rep.counters.get("distinct_completion_orders", 0)
    rep.rule += "; evaluations = packer executions; distinct_nontrivial = distinct worker completion orders observed in the hook logs (first 64 tickets)"
    rep.required_nonzero = ["identical_images", "ev_completion_inversions", "ev_blocks_written", "tsan_runs", "cfg_perturbed"]
    rep.extra["wallclock_api_calls_by_packers"] = rep.counters.get("wallclock_calls", 0)
    rep.assumptions = ["TSan sees every synchronisation primitive the pool uses; compressor libraries are uninstrumented",
                       "schedule independence of the real tools rests on observed runs, not on enumeration (see C09 for the pool)"]
    return rep.finish()
