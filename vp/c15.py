"""C15: stream compression of tar input/output is transparent; truncated/corrupted compressed input is an error."""
import os, traceback, hashlib
from . import core, build, gentree, tarmodel, codecs, c12
from .gentree import Node

PROP = "C15"
CODECS = ["gzip", "xz", "zstd", "bzip2"]


def make_archive(r, idx):
    t = {b"": Node("dir", 0o755)}
    if idx >= 1000:
        # the end-of-archive marker ends at (or one block around) a multiple of the 256 KiB stream buffer and is followed
        # by the usual record padding: what comes after the marker is only seen by a reader that goes on to the stream end
        k, delta = 1 + ((idx - 1000) // 3) % 2, (-512, 0, 512)[(idx - 1000) % 3]
        for size in range(262144 * k + delta - 1024 - 512 * 2 - 511, 262144 * k + delta):
            t[b"big"] = Node("file", 0o644, data=[("rand", idx, size // 2), ("words", idx, size - size // 2)], mtime=1000)
            tar, notes = tarmodel.write_tree(t, "ustar", name_prefix=b"./", pad_to=None)
            if len(tar) == 262144 * k + delta:
                return t, tar + bytes(10240 - len(tar) % 10240)
        raise AssertionError("no size gives a marker at %d" % (262144 * k + delta))
    n = r.choice([4, 8, 20])
    for i in range(n):
        kind = r.choice(["text", "rand", "zero", "small"])
        size = r.choice([1, 500, 512, 4000, 70000, 300000]) if idx % 3 else r.choice([1, 512, 5000])
        data = {"text": [("words", i + idx * 100, size)], "rand": [("rand", i + idx * 100, size)], "zero": [("zero", size)], "small": [("bytes", b"s%d" % i)]}[kind]
        t[b"dir%d" % (i % 3)] = Node("dir", 0o755)
        t[b"dir%d/f%02d" % (i % 3, i)] = Node("file", 0o644, data=data, mtime=1000 + i)
    t[b"link"] = Node("slink", 0o777, target=b"dir0")
    tar, notes = tarmodel.write_tree(t, r.choice(["gnu", "pax", "ustar"]), name_prefix=b"./", pad_to=r.choice([None, 10240]))
    return t, tar


def entry_boundaries(tar):
    """Offsets at which a new member (incl. its extension headers) starts."""
    out = []
    pos = 0
    pending_ext = False
    while pos + 512 <= len(tar) and tar[pos:pos + 512] != bytes(512):
        h = tar[pos:pos + 512]
        szf = h[124:136]
        size = int.from_bytes(szf[1:], "big") if szf[0] & 0x80 else int(szf.strip(b"\0 ") or b"0", 8)
        tf = h[156:157]
        if not pending_ext and pos > 0:
            out.append(pos)
        pending_ext = tf in (b"x", b"L", b"K", b"g")
        pos += 512 + ((size + 511) // 512 * 512 if tf not in (b"1", b"2", b"3", b"4", b"5", b"6") else 0)
    return out


def file_data_offsets(tar):
    """Offsets of content bytes of plain regular members (not covered by any tar checksum)."""
    out = []
    pos = 0
    while pos + 512 <= len(tar) and tar[pos:pos + 512] != bytes(512):
        h = tar[pos:pos + 512]
        szf = h[124:136]
        size = int.from_bytes(szf[1:], "big") if szf[0] & 0x80 else int(szf.strip(b"\0 ") or b"0", 8)
        tf = h[156:157]
        if tf in (b"0", b"\0") and size > 0:
            out.append((pos + 512, size))
        pos += 512 + ((size + 511) // 512 * 512 if tf not in (b"1", b"2", b"3", b"4", b"5", b"6") else 0)
    return out


def wrong_checksum(r, codec, tar):
    """A well-formed compressed stream of an archive with one changed content byte, whose integrity check field is
    damaged: only a decoder that gets to (and verifies) the check can tell."""
    regions = file_data_offsets(tar)
    if not regions or codec == "zstd":
        return None
    off, size = r.choice(regions)
    t2 = bytearray(tar)
    t2[off + r.randrange(size)] ^= 0x20
    c = bytearray(codecs.compress(codec, bytes(t2)))
    if codec == "gzip":
        c[len(c) - 8 + r.randrange(4)] ^= 1 << r.randrange(8)
    elif codec == "bzip2":
        c[10 + r.randrange(4)] ^= 1 << r.randrange(8)          # CRC of the first block
    elif codec == "xz":
        backward = int.from_bytes(c[-8:-4], "little")
        check = len(c) - 12 - (backward + 1) * 4 - 8         # CRC64 of the (single) block
        c[check + r.randrange(8)] ^= 1 << r.randrange(8)
    return bytes(c)


def framings(r, codec, tar):
    """Yield (name, compressed bytes)."""
    yield "single", codecs.compress(codec, tar, r.choice([1, 6, 9]) if codec != "zstd" else r.choice([1, 3, 19]))
    # concatenated members, arbitrary split
    k = r.choice([2, 3, 4])
    cuts = sorted(r.sample(range(1, len(tar)), k - 1))
    parts = [tar[a:b] for a, b in zip([0] + cuts, cuts + [len(tar)])]
    yield "members-%d-arbitrary" % k, b"".join(codecs.compress(codec, p) for p in parts)
    cuts = sorted(set(512 * r.randrange(1, len(tar) // 512) for _ in range(k - 1)))
    parts = [tar[a:b] for a, b in zip([0] + cuts, cuts + [len(tar)])]
    yield "members-%d-aligned" % len(parts), b"".join(codecs.compress(codec, p) for p in parts)
    if codec == "gzip":
        cuts = sorted(set(512 * r.randrange(1, len(tar) // 512) for _ in range(3)))
        yield "sync-flush", codecs.gzip_with_sync_flushes(tar, cuts)[0]
    # a tiny first member (smaller than the 512 byte probe)
    yield "tiny-first-member", codecs.compress(codec, tar[:100]) + codecs.compress(codec, tar[100:])
    # empty members: leading, at real tar entry boundaries, after a tiny member
    empty = codecs.compress(codec, b"")
    yield "empty-leading", empty + codecs.compress(codec, tar)
    bounds = entry_boundaries(tar)
    if bounds:
        cuts = sorted(set(r.sample(bounds, min(len(bounds), 3))))
        parts = [tar[a:b] for a, b in zip([0] + cuts, cuts + [len(tar)])]
        yield "empty-at-entry-boundaries", empty.join(codecs.compress(codec, p) for p in parts)
        yield "members-at-entry-boundaries", b"".join(codecs.compress(codec, p) for p in parts)
    yield "empty-after-tiny", codecs.compress(codec, tar[:10]) + empty + empty + codecs.compress(codec, tar[10:])


def t2s(B, data, chunk, work, tag, oc, timeout=120):
    out = os.path.join(work, "o_%s.sqfs" % tag)
    if os.path.exists(out):
        os.unlink(out)
    rc, o, er = c12.feeder_run([B["tar2sqfs"], "-c", "gzip", "-q", "-j", "2", out], data, chunk, {"ASAN_OPTIONS": core.ASAN_OPTS, "UBSAN_OPTIONS": core.UBSAN_OPTS}, timeout=timeout)
    oc.inc("tar2sqfs_runs")
    san, _ = core.parse_sanitizer(er, "tar2sqfs")
    sha = core.sha_file(out) if rc == 0 and os.path.exists(out) else None
    if os.path.exists(out):
        os.unlink(out)
    return rc, sha, er, san


def forward_case(arg):
    idx, tier = arg
    oc = core.Outcome("fwd-%d" % idx)
    try:
        B = build.build("asan")
        r = core.rng_for(PROP, "fwd", idx)
        tree, tar = make_archive(r, idx)
        with core.Scratch("c15") as work:
            rc, ref, er, san = t2s(B, tar, None, work, "plain", oc)
            if rc != 0 or san:
                oc.inconclusive.append("plain archive rejected: %s" % er[-200:])
                return oc
            feats = set()
            for codec in CODECS:
                for fname, comp in framings(r, codec, tar):
                    chunk = r.choice([None, None, 1, 7, 512, 4095, 65536])
                    if chunk == 1 and len(comp) > 200000:
                        chunk = 13
                    rc, sha, er, san = t2s(B, comp, chunk, work, "c", oc)
                    feats.add((codec, fname.split("-")[0]))
                    oc.inc("framing:%s:%s" % (codec, fname.split("-")[0]))
                    if san:
                        oc.violate(san, "tar2sqfs on %s %s" % (codec, fname), {"stderr.txt": er, "input.bin": comp[:1 << 20]})
                    elif rc is None:
                        oc.violate("tar2sqfs:hang:%s:%s" % (codec, fname.split("-")[0]), "chunk=%s" % chunk, {"input.bin": comp[:1 << 20]})
                    elif rc != 0:
                        oc.violate("transparent:%s:%s:rejected" % (codec, fname.split("-")[0]), "rc=%s %s" % (rc, er[-200:]), {"input.bin": comp[:1 << 20]})
                    elif sha != ref:
                        oc.violate("transparent:%s:%s:different-image" % (codec, fname.split("-")[0]), "chunk=%s: image differs from the uncompressed archive's" % chunk, {"input.bin": comp[:1 << 20]})
                    else:
                        oc.inc("identical_images")
                # negatives: truncation, bit flips, garbage suffix
                whole = codecs.compress(codec, tar)
                two = codecs.compress(codec, tar[:len(tar) // 2 // 512 * 512]) + codecs.compress(codec, tar[len(tar) // 2 // 512 * 512:])
                negs = []
                for _ in range(3 if tier == "quick" else 12):
                    negs.append(("truncated", whole[:r.randrange(20, len(whole) - 1)]))
                negs.append(("truncated-trailer", whole[:len(whole) - r.choice([1, 2, 4, 8])]))
                first_len = len(codecs.compress(codec, tar[:len(tar) // 2 // 512 * 512]))
                negs.append(("second-member-cut", two[:first_len + r.choice([1, 3, 10, 30])]))
                if codec == "gzip":
                    cut512 = sorted(set(512 * r.randrange(1, len(tar) // 512) for _ in range(3)))
                    sf, marks = codecs.gzip_with_sync_flushes(tar, cut512)
                    negs.append(("cut-at-sync-flush", sf[:marks[0]]))
                    negs.append(("cut-after-sync-flush", sf[:marks[-1] + 3]))
                for _ in range(2 if tier == "quick" else 8):
                    b = bytearray(whole)
                    pos = r.randrange(12, len(b))
                    b[pos] ^= 1 << r.randrange(8)
                    negs.append(("bitflip", bytes(b)))
                for _ in range(2 if tier == "quick" else 6):
                    # damage close to the end: only the check sums in the stream trailer can tell
                    b = bytearray(whole)
                    pos = r.randrange(max(12, len(b) * 3 // 4), len(b))
                    b[pos] ^= 1 << r.randrange(8)
                    negs.append(("bitflip-late", bytes(b)))
                wc = wrong_checksum(r, codec, tar)
                if wc is not None:
                    negs.append(("content-changed-checksum-wrong", wc))
                negs.append(("garbage-suffix", whole + r.randbytes(r.choice([1, 10, 600]))))
                negs.append(("zero-padding", whole + bytes(r.choice([4, 512, 1024]))))
                for kind, data in negs:
                    rc, sha, er, san = t2s(B, data, r.choice([None, 512, 4096]), work, "n", oc)
                    oc.inc("negative:%s" % kind)
                    if san:
                        oc.violate(san, "tar2sqfs on %s %s" % (codec, kind), {"stderr.txt": er, "input.bin": data[:1 << 20]})
                    elif rc is None:
                        oc.violate("tar2sqfs:hang:%s:%s" % (codec, kind), "", {"input.bin": data[:1 << 20]})
                    elif rc == 0 and sha != ref:
                        try:
                            dec = codecs.decompress(codec, data)
                            ok = "reference decoder yields %d bytes (full %d)" % (len(dec), len(tar))
                            # a damaged stream that the reference decoder accepts too is a valid stream for other data: not detectable
                            oc.inc("negative_undetectable")
                            continue
                        except ValueError as e:
                            ok = "reference decoder: %s" % e
                        oc.violate("negative:%s:%s:accepted-as-different-archive" % (codec, kind), "exit 0 with an image different from the full archive's; %s" % ok, {"input.bin": data[:1 << 20]})
                    elif rc == 0:
                        oc.inc("negative_harmless")
                    else:
                        oc.inc("negative_rejected")
                        if not er.strip():
                            oc.violate("negative:%s:%s:silent-failure" % (codec, kind), "")
            oc.features = tuple(sorted(feats))[:3] + (idx,)
            oc.sample = {"archive": idx, "tar_bytes": len(tar), "entries": len(tree)}
    except Exception:
        oc.inconclusive.append("harness exception: %s" % traceback.format_exc()[-800:])
    return oc


def reverse_case(arg):
    idx, tier = arg
    oc = core.Outcome("rev-%d" % idx, features=("reverse", idx))
    try:
        B = build.build("asan")
        r = core.rng_for(PROP, "rev", idx)
        # tar stream length near k * 256 KiB - {0, 1, 512, 1024} with incompressible content (the wrapper's buffer size)
        k = r.choice([1, 2, 3])
        delta = [0, 512, 1024, 1536, 2048, -512][idx % 6]
        target = k * 262144 - delta
        # tar stream = 512 header + data padded + (dir header) + 1024 trailer; one file: 512 + pad(size) + 1024
        size = target - 512 - 1024 - r.choice([0, 1, 2, 511])
        t = {b"": Node("dir", 0o755), b"f": Node("file", 0o644, data=[("rand", idx, max(1, size))])}
        if idx % 2:
            t[b"g"] = Node("file", 0o644, data=[("words", idx, 5000)])
        with core.Scratch("c15r") as work:
            root = os.path.join(work, "in")
            gentree.materialise_dir(t, root)
            img = os.path.join(work, "i.sqfs")
            res = core.run_tool([B["gensquashfs"], "-q", "-c", "lz4", "-D", root, img], timeout=120)
            if res.rc != 0:
                oc.inconclusive.append("pack failed")
                return oc
            plain = core.run_tool([B["sqfs2tar"], img], timeout=120)
            if plain.rc != 0:
                oc.inconclusive.append("sqfs2tar failed")
                return oc
            oc.sample = {"reverse": idx, "tar_stream_bytes": len(plain.out), "mod_256k": len(plain.out) % 262144}
            for codec in CODECS:
                res = core.run_tool([B["sqfs2tar"], "-c", codec, img], timeout=60)
                oc.inc("sqfs2tar_compressed_runs")
                if res.san:
                    oc.violate(res.san, "sqfs2tar -c %s" % codec, {"stderr.txt": res.err})
                elif res.hang:
                    oc.violate("sqfs2tar:hang:final-flush:%s" % codec, "tar stream %d bytes" % len(plain.out))
                elif res.rc != 0:
                    oc.violate("sqfs2tar:compress-fails:%s" % codec, res.err[-200:].decode("latin1"))
                else:
                    try:
                        dec = codecs.decompress(codec, res.out)
                    except ValueError as e:
                        oc.violate("sqfs2tar:output-not-decodable:%s" % codec, "%s (tar stream %d bytes)" % (e, len(plain.out)))
                        continue
                    if dec != plain.out:
                        oc.violate("sqfs2tar:compressed-output-differs:%s" % codec, "decoded %d bytes, plain %d" % (len(dec), len(plain.out)))
                    else:
                        oc.inc("reverse_identical")
    except Exception:
        oc.inconclusive.append("harness exception: %s" % traceback.format_exc()[-800:])
    return oc


def main(tier):
    rep = core.Report(PROP, tier, "exploration",
                      "forward: generated archives wrapped by reference codecs (gzip, xz, zstd, bzip2; levels; single stream, 2-4 concatenated members split at arbitrary and 512-aligned offsets, "
                      "gzip sync-flush points, a first member smaller than the format probe) and fed to tar2sqfs (ASan) in pipe chunks of 1..65536 bytes: image must equal the plain archive's; "
                      "negatives (truncation incl. inside the trailer, at and after flush points and inside a second member; bit flips; garbage and zero suffixes) must not yield a different image with exit 0 nor hang; "
                      "reverse: sqfs2tar -c X decoded by the reference codec must equal plain sqfs2tar for tar streams sized around multiples of the 256 KiB wrapper buffer; distinct = (archive, codec, framing)")
    build.build("asan")
    nf, nr = (12, 18) if tier == "quick" else (150, 120)
    for oc in core.pmap(forward_case, [(i, tier) for i in range(nf)] + [(1000 + i, tier) for i in range(6)]):
        rep.add(oc)
    for oc in core.pmap(reverse_case, [(i, tier) for i in range(nr)]):
        rep.add(oc)
    rep.extra["archives"] = nf
    rep.evaluations = rep.counters.get("tar2sqfs_runs", 0) + rep.counters.get("sqfs2tar_compressed_runs", 0)
    rep.distinct_override = sum(1 for k in rep.counters if k.startswith("framing:") or k.startswith("negative:")) + nf + nr
    rep.required_nonzero = ["identical_images", "negative_rejected", "reverse_identical", "framing:gzip:members", "framing:xz:members", "framing:zstd:members", "framing:bzip2:members"]
    return rep.finish()
