"""C19: copies of library objects are independent, equivalent and safely destroyable."""
import os, re, traceback
from . import core, build, gentree
from .gentree import Node

PROP = "C19"
KINDS = ["gzip", "xz", "lzma", "lz4", "zstd", "gzip-unc", "xz-unc", "lzma-unc", "lz4-unc", "zstd-unc",
         "frag", "id", "meta", "dir", "dir-dot", "data", "xattr-reader", "file", "xattr-writer"]


def make_image(B, work, comp):
    r = core.rng_for(PROP, "img", comp)
    t = {b"": Node("dir", 0o755)}
    for i in range(60):
        t[b"d%d" % (i % 5)] = Node("dir", 0o755, xattrs={b"user.d": b"%d" % (i % 5)})
        t[b"d%d/f%02d" % (i % 5, i)] = Node("file", 0o644, data=[("rand", i, 100 + 700 * i)], xattrs={b"user.k": b"v%d" % (i % 9), b"trusted.long": b"L" * 50} if i % 2 else {})
    # more than 2 x 512 distinct attribute sets, so the xattr id table spans several metadata blocks
    t[b"x"] = Node("dir", 0o755)
    for i in range(1100):
        t[b"x/e%04d" % i] = Node("file", 0o644, data=[], xattrs={b"user.n": b"%d" % i})
    # an inode table of more than 64 KiB compressed (inode references that need more than 32 bits): many small inodes that compress badly
    for dno in range(90):
        t[b"deep%02d" % dno] = Node("dir", 0o755, uid=r.randrange(60000), gid=r.randrange(60000), mtime=r.getrandbits(31))
        for i in range(100):
            t[b"deep%02d/e%02d" % (dno, i)] = Node("file", 0o644, uid=r.randrange(60000), gid=r.randrange(60000), mtime=r.getrandbits(31), data=[])
    t[b"big"] = Node("file", 0o644, data=[("rep", b"0123456789", 5 * 4096 + 17)])
    t[b"sparse"] = Node("file", 0o644, data=[("zero", 8192), ("bytes", b"end")])
    root = os.path.join(work, "in")
    gentree.materialise_dir(t, root)
    img = os.path.join(work, "i.sqfs")
    res = core.run_tool([B["gensquashfs"], "-q", "-c", comp, "-b", "4096", "-x", "-k", "-D", root, img], timeout=120)
    assert res.rc == 0, res.err
    return img


def hostile_data_image(work):
    """Damaged image for the data reader: a fragment block much shorter than a block with a file that points far into it, and a full size
    file whose only block is stored with 16 bytes.  The original answers from its zero padded block-size buffers; a copy must do the same."""
    from . import sqfsimg
    t = {b"": Node("dir", 0o755), b"good": Node("file", 0o644, data=[("bytes", b"0123456789abcdef")]),
         b"evil": Node("file", 0o644, data=[("rand", 3, 255)]), b"short": Node("file", 0o644, data=[("rand", 4, 4096)]),
         b"plain": Node("file", 0o644, data=[("rand", 5, 5000)])}
    img, fmap, info = sqfsimg.build_image(t)
    f = {n: (o, sz) for n, o, sz in fmap.fields}
    img = sqfsimg.patch(img, f["inode[evil].frag_off"][0], f["inode[evil].frag_off"][1], 3000)
    img = sqfsimg.patch(img, f["inode[short].blockword0"][0], 4, 16 | (1 << 24))
    o = f["frag[0]"][0]
    img = sqfsimg.patch(img, o + 8, 4, 16 | (1 << 24))
    path = os.path.join(work, "hostile.sqfs")
    with open(path, "wb") as fh:
        fh.write(img)
    return path


def run_kind(arg):
    kind, seeds, tier, comp = arg
    oc = core.Outcome("%s/%s" % (kind, comp), features=(kind, comp))
    try:
        B = build.build("asan")
        exe = build.build_harness("asan", "copy_hist", [os.path.join(core.VERIF, "harness", "copy_hist.c")],
                                  extra_cflags=["-I" + os.path.join(core.REPO, "include")])
        with core.Scratch("c19") as work:
            img = make_image(B, work, comp)
            runs = [(seed, img) for seed in seeds]
            if kind == "data":
                hi = hostile_data_image(work)
                runs += [(seed, hi) for seed in seeds]
                oc.inc("hostile_image_histories", len(seeds) * 2)
            for seed, img in runs:
                for order in (0, 1):
                    args = [exe, kind, str(seed), str(order), img, work] + (["cc"] if seed % 3 == 0 else ["failcopy"] if seed % 3 == 1 else [])
                    res = core.run_tool(args, timeout=120, binary="copy_hist",
                                        env={"ASAN_OPTIONS": core.ASAN_OPTS.replace("detect_leaks=0", "detect_leaks=1"), "LSAN_OPTIONS": "exitcode=99"})
                    oc.inc("histories")
                    out = res.out.decode("latin1")
                    m = re.search(r"RESULT kind=\S+ ops=(\d+) viol=\d+ failed_copies=(\d+)", out)
                    if m:
                        oc.inc("operations", int(m.group(1)))
                        oc.inc("failed_copies_survived", int(m.group(2)))
                    tag = "release-order-%s" % ("original-first" if order == 0 else "copy-first")
                    for v in re.finditer(r"^VIOL (\S+)", out, re.M):
                        oc.violate("copy:%s:%s" % (v.group(1), kind), "seed %d %s: %s" % (seed, tag, out[:300]))
                    if res.san:
                        k = res.san
                        if ":leak:" in k or "detected-memory-leaks" in k or "LeakSanitizer" in res.err.decode("latin1")[:300]:
                            k = "copy:leak:%s" % kind
                        else:
                            k = "copy:%s:%s:%s" % (kind, tag, k.split(":", 1)[1])
                        oc.violate(k, "seed %d %s" % (seed, tag), {"stderr.txt": res.err[:20000]})
                    elif res.hang:
                        oc.violate("copy:hang:%s" % kind, "seed %d" % seed)
                    elif "HARNESS-ERROR" in out:
                        oc.inconclusive.append(out[:200])
                    elif not m:
                        oc.violate("copy:%s:%s:abnormal-exit" % (kind, tag), "rc=%s %s" % (res.rc, res.err[-300:]))
            oc.sample = {"kind": kind, "image_compressor": comp, "seeds": len(seeds)}
    except Exception:
        oc.inconclusive.append("harness exception: %s" % traceback.format_exc()[-800:])
    return oc


def main(tier):
    rep = core.Report(PROP, tier, "exploration",
                      "for every copyable kind (5 compressors in both directions, fragment and id tables, metadata/directory/data/xattr readers, read-only file, xattr writer) three identically constructed "
                      "objects receive the same seeded pre-history; C = sqfs_copy(O1) (and a copy of the copy every third history); C then receives a seeded sequence while O1 receives an interleaved different one; "
                      "in a third of the histories every allocation inside sqfs_copy(O1) is first made to fail once (the failed copy must leave O1 answering like O3); C must answer like the twin O2 and O1 like the twin O3; then either O1 or C is released first (one process per order) and the survivor is used again; ASan + LeakSanitizer; "
                      "distinct = (kind, image compressor)")
    build.build("asan")
    n = 30 if tier == "quick" else 900
    comps = ["gzip", "zstd"] if tier == "quick" else ["gzip", "xz", "lzma", "lz4", "zstd"]
    items = []
    for kind in KINDS:
        for ci, comp in enumerate(comps):
            seeds = [core.SEED * 100000 + ci * 1000 + i for i in range(n // len(comps))]
            items.append((kind, seeds, tier, comp))
    for oc in core.pmap(run_kind, items):
        rep.add(oc)
    rep.evaluations = rep.counters.get("histories", 0)
    rep.required_nonzero = ["histories", "operations", "failed_copies_survived"]
    return rep.finish()
