"""C16: rdsquashfs --describe output is valid gensquashfs --pack-file input that rebuilds the tree."""
import os, itertools, traceback
from . import core, build, gentree, sqfsimg, views
from .gentree import Node

PROP = "C16"
ALPHA = [b"a", b" ", b"\t", b'"', b"\\", b"'", b"#", b"=", b"-", b"\x80", b"\xff", b"\r", b"\x0b", b"\x0c"]
CLASS = {b"a": "plain", b" ": "space", b"\t": "tab", b'"': "dquote", b"\\": "backslash", b"'": "squote", b"#": "hash", b"=": "eq",
         b"-": "dash", b"\x80": "hi", b"\xff": "hi", b"\r": "cr", b"\x0b": "vt", b"\x0c": "ff"}


def signature(s):
    return "+".join(sorted(set(CLASS[bytes([c])] for c in s) - {"plain"})) or "plain"


def strings(maxlen):
    out = []
    for L in range(1, maxlen + 1):
        for t in itertools.product(ALPHA, repeat=L):
            s = b"".join(t)
            if s in (b".", b".."):
                continue
            out.append(s)
    return out


def build_tree(strs, r):
    t = {b"": Node("dir", r.choice([0o755, 0o700, 0o1777]), uid=r.choice([0, 5]), gid=r.choice([0, 7]))}
    for i, s in enumerate(strs):
        t[b"f" + s] = Node("file", r.choice([0o644, 0o600, 0o4755]), uid=i % 3, gid=(i * 7) % 5, data=[("bytes", b"content of " + s)])
        t[s + b"d"] = Node("dir", 0o750, uid=1, gid=2)
        t[s + b"d/" + s] = Node("file", 0o640, data=[("bytes", s * 3)])
        t[b"l" + s] = Node("slink", 0o777, target=s)
        t[s + b"l"] = Node("slink", 0o777, target=b"x/" + s + b"/y" + s)
        if i % 4 == 0:
            t[s + b"p"] = Node("fifo", 0o600)
            t[b"c" + s] = Node("cdev", 0o660, dev=(i % 300, i * 13 % 1000))
            t[s + b"b"] = Node("bdev", 0o606, dev=(4095, (1 << 20) - 1))
            t[b"s" + s] = Node("sock", 0o777)
    return t


def big_listing_strings(r, n):
    """Names dominated by CR / quote / backslash so that every 128 KiB read-buffer boundary of the listing falls on one of them."""
    out = []
    for i in range(n):
        ch = [b"\r", b"\r", b"\\", b'"', b" ", b"\t"][i % 6]
        out.append(ch * r.choice([60, 120, 180, 199]) + b"%05d" % i + ch * r.choice([0, 1, 7, 30]))
    return out


def run_group(arg):
    sig, strs, variant, idx, tier = arg
    if sig.startswith("big-listing"):
        strs = big_listing_strings(core.rng_for(PROP, sig), 700 if tier == "quick" else 2500)
    oc = core.Outcome("%s/%s" % (sig, variant), features=(sig, variant))
    try:
        B = build.build("asan")
        r = core.rng_for(PROP, sig, variant, idx)
        tree = build_tree(strs, r)
        with core.Scratch("c16") as work:
            root = os.path.join(work, "in")
            i1 = os.path.join(work, "i1.sqfs")
            if sig.startswith("numeric-limits"):
                # I1 from the independent writer: largest and smallest values of every numeric column of the listing
                # (a real directory cannot carry uid 4294967295, and a pack file would go through the parser under test)
                tree = {b"": Node("dir", 0o7777 if idx % 2 else 0o755, uid=0xFFFFFFFF if idx % 2 else 0, gid=0xFFFFFFFF if idx % 3 == 0 else 0)}
                vals = [0, 1, 0x7FFFFFFF, 0x80000000, 0xFFFFFFFE, 0xFFFFFFFF, 65535, 65536]
                for i, (m, u) in enumerate(itertools.product([0o7777, 0o0, 0o4000, 0o2000, 0o1000, 0o777], vals)):
                    tree[b"f%03d" % i] = Node("file", m, uid=u, gid=vals[(i * 3) % len(vals)], data=[("bytes", b"%d" % i)])
                    if i % 5 == 0:
                        tree[b"d%03d" % i] = Node("dir", m, uid=vals[(i + 1) % len(vals)], gid=u)
                    if i % 7 == 0:
                        tree[b"n%03d" % i] = Node("cdev" if i % 2 else "bdev", m, uid=u, gid=u, dev=((4095, 0, 255)[i % 3], (0xFFFFF, 0, 255)[i % 3]))
                        tree[b"p%03d" % i] = Node("fifo", m, uid=u, gid=0xFFFFFFFF)
                with open(i1, "wb") as f:
                    f.write(sqfsimg.build_image(tree)[0])
                oc.inc("writer_built_images")
            else:
                gentree.materialise_dir(tree, root)
                d = {"mode": tree[b""].mode, "uid": tree[b""].uid, "gid": tree[b""].gid}
                res = core.run_tool([B["gensquashfs"], "-q", "-c", "gzip", "-D", root, "-d", "mode=0%o,uid=%d,gid=%d" % (d["mode"], d["uid"], d["gid"]), i1], timeout=300)
                if res.rc != 0:
                    oc.inconclusive.append("building I1 failed: %s" % res.err[-200:])
                    return oc
            # unpack root: plain or with special characters
            if variant == "unpack-root-special":
                rname = (strs[idx % len(strs)] + b"R").replace(b"/", b"_")
                R = os.path.join(os.fsencode(work), b"u" + rname)
            else:
                R = os.path.join(os.fsencode(work), b"unp")
            os.makedirs(R)
            res = views.rd(B, ["-u", "/", "-p", R, "-q"], i1, timeout=300)
            if res.rc != 0 or res.san:
                if res.san:
                    oc.violate(res.san, "rdsquashfs -u", {"stderr.txt": res.err})
                else:
                    oc.inconclusive.append("unpack failed: %s" % res.err[-200:])
                return oc
            pargs = ["-d"] if variant == "plain" else ["-d", "-p", R]
            res = views.rd(B, pargs, i1, timeout=300)
            oc.inc("describe_runs")
            if res.san:
                oc.violate(res.san, "rdsquashfs -d", {"stderr.txt": res.err})
                return oc
            if res.rc != 0:
                oc.violate("describe:fails:%s" % sig, "rc=%d %s" % (res.rc, res.err[-200:]))
                return oc
            listing = res.out
            lf = os.path.join(work, "listing.txt")
            with open(lf, "wb") as f:
                f.write(listing)
            i2 = os.path.join(work, "i2.sqfs")
            cmd = [B["gensquashfs"], "-q", "-c", "gzip", "-F", lf] + (["-D", R] if variant == "plain" else []) + [i2]
            res = core.run_tool(cmd, timeout=300, cwd=work)
            oc.inc("rebuild_runs")
            oc.sample = {"signature": sig, "variant": variant, "strings": [repr(s) for s in strs[:5]], "listing_head": listing[:200].decode("latin1")}
            if res.san:
                oc.violate(res.san, "gensquashfs -F", {"stderr.txt": res.err, "listing.txt": listing})
                return oc
            if res.rc != 0:
                oc.violate("describe-roundtrip:rejected:%s:%s" % (variant, sig), "gensquashfs -F: %s" % res.err[-300:].decode("latin1"), {"listing.txt": listing})
                return oc
            m1 = sqfsimg.tree_model(sqfsimg.parse(open(i1, "rb").read()))
            m2 = sqfsimg.tree_model(sqfsimg.parse(open(i2, "rb").read()))
            if set(m1) != set(m2):
                oc.violate("describe-roundtrip:paths:%s:%s" % (variant, sig), "missing %r extra %r" % (sorted(set(m1) - set(m2))[:3], sorted(set(m2) - set(m1))[:3]), {"listing.txt": listing})
                return oc
            for p in m1:
                for f in ("type", "mode", "uid", "gid", "target", "devno", "size", "sha256"):
                    if m1[p].get(f) != m2[p].get(f):
                        oc.violate("describe-roundtrip:%s:%s:%s" % (f, m1[p]["type"], sig), "%r: %r -> %r" % (p, m1[p].get(f), m2[p].get(f)), {"listing.txt": listing})
                oc.inc("entries_compared")
            oc.inc("strings", len(strs))
    except Exception:
        oc.inconclusive.append("harness exception: %s" % traceback.format_exc()[-800:])
    return oc


def main(tier):
    rep = core.Report(PROP, tier, "exploration",
                      "strings over {letter, space, tab, \", \\, ', #, =, -, 0x80, 0xFF, CR}: every string up to length 2 (quick) / 3 (thorough) plus random longer ones, used as file, directory, "
                      "symlink, device, fifo and socket names (first/middle/last position), as symlink targets and as unpack-root names; I1 is built by --pack-dir (so the only pack-file parser under test "
                      "is the one consuming describe output; a few images with the extreme values of every numeric column come from the independent writer), described with and without -p, rebuilt with gensquashfs -F and compared through the independent parser; "
                      "groups = character-class signatures; distinct = (signature, variant)")
    build.build("asan")
    maxlen = 2 if tier == "quick" else 3
    allstr = strings(maxlen)
    r = core.rng_for(PROP, "long")
    for _ in range(60 if tier == "quick" else 600):
        L = r.choice([3, 4, 6, 10, 30])
        s = b"".join(r.choice(ALPHA) for _ in range(L))
        allstr.append(s)
    groups = {}
    for s in allstr:
        groups.setdefault(signature(s), []).append(s)
    items = []
    for sig, strs in sorted(groups.items()):
        for k in range(0, len(strs), 40):
            chunk = strs[k:k + 40]
            for vi, variant in enumerate(("plain", "unpack-root", "unpack-root-special")):
                items.append((sig, chunk, variant, k + vi, tier))
    for k in range(6 if tier == "quick" else 24):
        items.append(("big-listing-%d" % k, [], ("plain", "unpack-root")[k % 2], k, tier))
    for k in range(4 if tier == "quick" else 12):
        items.append(("numeric-limits-%d" % k, [b"a"], ("plain", "unpack-root")[k % 2], k, tier))
    for oc in core.pmap(run_group, items):
        rep.add(oc)
    rep.extra["strings_total"] = len(allstr)
    rep.extra["signatures"] = len(groups)
    rep.extra["exhaustive_up_to_length"] = maxlen
    rep.required_nonzero = ["describe_runs", "rebuild_runs", "entries_compared", "writer_built_images"]
    return rep.finish()
