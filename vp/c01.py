"""C01 packing fidelity (and the source of images for C03)."""
import os, sys, traceback
from . import core, build, gentree, sqfsimg, views, packcase
from .gentree import Node

PROP = "C01"


# ------------------------------------------------------------------ boundary suite
def boundary_cases():
    """Fixed cases: (name, builder(r) -> (tree, config, expectation kind))."""
    cases = []

    def base_cfg(**kw):
        c = {"comp": "gzip", "bs": 4096, "input": "packfile", "extra": [], "e": True}
        c.update(kw)
        return c

    def dir_n(n, namelen=8):
        def b(r):
            t = {b"": Node("dir", 0o755), b"d": Node("dir", 0o755)}
            for i in range(n):
                t[b"d/" + (b"%0*d" % (namelen, i))] = Node("fifo", 0o644)
            return t, base_cfg(), "ok"
        return b
    for n in (0, 1, 255, 256, 257, 511, 512, 513, 1025):
        cases.append(("dir-%d-entries" % n, dir_n(n)))
    # listing across 64 KiB (basic -> extended directory) and many 8 KiB metadata blocks
    cases.append(("dir-listing-64k", dir_n(3000, 20)))
    cases.append(("dir-listing-long-names", dir_n(300, 250)))

    def dir_listing_bytes(total):
        # one header (255 fifos, consecutive inodes in one metadata block): listing = 12 + 255*8 + sum(name lengths)
        def b(r):
            n = 255
            want = total - 12 - 8 * n
            base, extra = divmod(want, n)
            t = {b"": Node("dir", 0o755), b"d": Node("dir", 0o755), b"d2": Node("dir", 0o700)}
            for i in range(n):
                L = base + (1 if i < extra else 0)
                t[b"d/" + (b"%03d" % i) + b"n" * (L - 3)] = Node("fifo", 0o644)
            t[b"d2/x"] = Node("file", 0o644, data=[("bytes", b"after")])
            return t, base_cfg(), "ok"
        return b
    def repeated_blocks(comp, bs):
        # files made of identical non-zero blocks: duplicate runs that overlap the file itself
        def b(r):
            P = bytes([0xAA]) * bs
            Q = (b"pattern-Q" * (bs // 9 + 1))[:bs]
            t = {b"": Node("dir", 0o755),
                 b"a": Node("file", 0o644, data=[("bytes", P)]),
                 b"b": Node("file", 0o644, data=[("bytes", P * 3)]),
                 b"c": Node("file", 0o644, data=[("bytes", Q * 2 + b"tail")]),
                 b"d": Node("file", 0o644, data=[("bytes", Q * 5)]),
                 b"e": Node("file", 0o644, data=[("bytes", P * 2 + Q + P)]),
                 b"f": Node("file", 0o644, data=[("bytes", P * 7 + b"x")]),
                 b"g": Node("file", 0o644, data=[("rand", 3, bs), ("bytes", P * 4)])}
            return t, base_cfg(comp=comp, bs=bs), "ok"
        return b
    for comp, bs in (("gzip", 4096), ("xz", 4096), ("lz4", 8192), ("zstd", 131072)):
        cases.append(("repeated-blocks-%s-%d" % (comp, bs), repeated_blocks(comp, bs)))

    def xattr_sets(n):
        def b(r):
            t = {b"": Node("dir", 0o755)}
            for i in range(n):
                t[b"f%05d" % i] = Node("fifo", 0o644, xattrs={b"user.k": b"v%d" % i})
            return t, base_cfg(xattr_file=True), "ok"
        return b
    for n in (1, 511, 512, 513, 1024, 1536):
        cases.append(("xattr-%d-sets" % n, xattr_sets(n)))

    def shared_long_values(r):
        t = {b"": Node("dir", 0o755)}
        big = b"L" * 300
        for i in range(40):
            t[b"f%02d" % i] = Node("file", 0o644, data=[("bytes", b"x%d" % i)],
                                   xattrs={b"user.a%d" % (i % 7): big, b"trusted.b": b"12345678" if i % 2 else b"123456789",
                                           b"security.c": bytes(range(i, i + 9))})
        return t, base_cfg(xattr_file=True), "ok"
    cases.append(("xattr-shared-long-values", shared_long_values))

    def ids(n):
        def b(r):
            t = {b"": Node("dir", 0o755)}
            # n distinct ids: id 0 (root) + n-1 others spread over uid/gid
            k = 0
            i = 1
            while i < n:
                u = i
                g = i + 1 if i + 1 < n else i
                t[b"p%06d" % k] = Node("fifo", 0o644, uid=100000 + u, gid=100000 + g)
                i += 2
                k += 1
            return t, base_cfg(e=False), ("ok" if n <= 65536 - 0 and n < 65536 else "refuse")
        return b
    cases.append(("ids-255", ids(255)))
    cases.append(("ids-257", ids(257)))
    cases.append(("ids-65535", ids(65535)))
    cases.append(("ids-65536", ids(65536)))
    cases.append(("ids-65537", ids(65537)))

    def name_len(n):
        def b(r):
            t = {b"": Node("dir", 0o755), b"x" * n: Node("file", 0o644, data=[("bytes", b"hello")]),
                 b"a": Node("dir", 0o755), b"a/" + b"y" * n: Node("fifo", 0o600)}
            return t, base_cfg(), ("ok" if n <= 256 else "refuse")
        return b
    for n in (255, 256, 257, 300, 65535, 65536, 65537):
        cases.append(("name-%d-bytes" % n, name_len(n)))

    def xattr_key_len(n):
        # the on-disk key size is a 16 bit field that counts the bytes after the "user." / "trusted." / "security." prefix
        def b(r):
            t = {b"": Node("dir", 0o755), b"f": Node("file", 0o644, data=[("bytes", b"x")], xattrs={b"user." + b"k" * n: b"value", b"user.short": b"1"}),
                 b"g": Node("file", 0o644, data=[("bytes", b"y")], xattrs={b"user.other": b"2"})}
            return t, base_cfg(xattr_file=True), ("ok" if n <= 65535 else "refuse")
        return b
    for n in (255, 256, 65535, 65536, 70000):
        cases.append(("xattr-key-%d-bytes" % n, xattr_key_len(n)))

    def glob_dirs(r):
        # directories first created implicitly by file lines, then supplied with attributes by a glob line with -keeptime:
        # time stamps outside the unsigned 32 bit range are clamped on both paths
        t = {b"": Node("dir", 0o755), b"old": Node("dir", 0o750, uid=3, gid=4, mtime=-86400), b"new": Node("dir", 0o1777, mtime=(1 << 32) + 5),
             b"mid": Node("dir", 0o700, mtime=1234567890), b"old/f": Node("file", 0o644, data=[("bytes", b"o")]), b"new/f": Node("file", 0o600, data=[("bytes", b"n")]),
             b"mid/sub": Node("dir", 0o755, mtime=0xFFFFFFFF), b"mid/sub/g": Node("fifo", 0o644), b"empty": Node("dir", 0o711, mtime=-1)}
        return t, base_cfg(input="glob-dirs"), "ok"
    cases.append(("glob-dirs-after-implicit", glob_dirs))

    def glob_types(r):
        # the pattern the man page recommends (directories first, then files) on a tree with multiply linked files
        t = {b"": Node("dir", 0o755), b"sub": Node("dir", 0o755), b"a.txt": Node("file", 0o644, data=[("bytes", b"A")]),
             b"sub/b.txt": Node("file", link_to=b"a.txt"), b"c.txt": Node("file", 0o600, data=[("bytes", b"C")]), b"sub/zz": Node("file", link_to=b"a.txt"),
             b"lnk": Node("slink", 0o777, target=b"a.txt"), b"pipe": Node("fifo", 0o644), b"sub/deep": Node("dir", 0o700),
             b"sub/deep/d.txt": Node("file", 0o644, data=[("bytes", b"D")]), b"sub/deep/e.txt": Node("file", link_to=b"sub/deep/d.txt")}
        return t, base_cfg(input="glob-types"), "ok"
    cases.append(("glob-type-filters-with-hard-links", glob_types))

    def forced_id(opt, val):
        # --set-uid / --set-gid values that are no 32 bit id: refuse, do not store something else
        def b(r):
            t = {b"": Node("dir", 0o755), b"f": Node("file", 0o644, data=[("bytes", b"x")])}
            return t, base_cfg(**{opt: val}), ("ok" if isinstance(val, int) and 0 <= val <= 0xFFFFFFFF else "refuse")
        return b
    for opt, val in (("set_uid", 4294967295), ("set_uid", 4294967296), ("set_gid", 4294967297), ("set_gid", "-2")):
        cases.append(("%s-%s" % (opt, val if val != "" else "empty"), forced_id(opt, val)))

    def dev(maj, mi):
        def b(r):
            t = {b"": Node("dir", 0o755), b"c": Node("cdev", 0o600, dev=(maj, mi)), b"b": Node("bdev", 0o600, dev=(maj, mi))}
            return t, base_cfg(), ("ok" if maj < 4096 and mi < (1 << 20) else "refuse")
        return b
    for maj, mi in ((4095, (1 << 20) - 1), (4096, 0), (0, 1 << 20), (5000, 5), (255, 256), (0xFFFFFFFF, 0xFFFFFFFF)):
        cases.append(("dev-%d-%d" % (maj, mi), dev(maj, mi)))

    def links(r):
        t = {b"": Node("dir", 0o755), b"sbin": Node("dir", 0o755),
             b"sbin/init": Node("file", 0o755, data=[("bytes", b"#!/bin/sh\n")], uid=3, gid=4),
             b"init": Node("file", link_to=b"sbin/init"), b"z": Node("dir", 0o700),
             b"z/also": Node("file", link_to=b"sbin/init"),
             b"sl": Node("slink", 0o777, target=b"sbin/init"), b"sl2": Node("slink", link_to=b"sl"),
             b"fifo": Node("fifo", 0o600), b"z/fifo2": Node("fifo", link_to=b"fifo")}
        return t, base_cfg(), "ok"
    cases.append(("link-directive", links))

    def sizes(comp, bs):
        def b(r):
            t = {b"": Node("dir", 0o755)}
            i = 0
            for k in (1, 2, 3):
                for d in (-1, 0, 1):
                    for kind in ("rand", "text", "zero"):
                        n = k * bs + d
                        if kind == "rand":
                            data = [("rand", 7 + i, n)]
                        elif kind == "text":
                            data = [("rep", b"0123456789abcdef%d" % i, n)]
                        else:
                            data = [("zero", n)]
                        t[b"f_%s_%d_%+d" % (kind.encode(), k, d)] = Node("file", 0o644, data=data)
                        i += 1
            t[b"empty"] = Node("file", 0o644, data=[])
            t[b"one"] = Node("file", 0o644, data=[("bytes", b"Z")])
            return t, base_cfg(comp=comp, bs=bs, T=(bs == 8192)), "ok"
        return b
    for comp in packcase.COMPRESSORS:
        for bs in (4096, 8192, 131072):
            cases.append(("sizes-%s-%d" % (comp, bs), sizes(comp, bs)))

    def big_bs(r):
        t = {b"": Node("dir", 0o755), b"a": Node("file", 0o644, data=[("rand", 1, (1 << 20) + 1)]),
             b"b": Node("file", 0o644, data=[("rep", b"qwerty", (1 << 20) - 1)]),
             b"c": Node("file", 0o644, data=[("zero", 3 << 20), ("bytes", b"end")])}
        return t, base_cfg(comp="zstd", bs=1 << 20), "ok"
    cases.append(("block-size-1M", big_bs))

    def all_types_dir(r):
        t = {b"": Node("dir", 0o755), b"d": Node("dir", 0o1777, uid=5, gid=6, mtime=12345, xattrs={b"user.d": b"dir"}),
             b"d/f": Node("file", 0o4755, uid=1, gid=2, mtime=0x7FFFFFFF, data=[("bytes", b"data")], xattrs={b"user.x": b"\x00\x01bin"}),
             b"d/l": Node("slink", 0o777, target=b"../d/f", mtime=77, uid=9),
             b"d/b": Node("bdev", 0o660, dev=(8, 1), mtime=5), b"d/c": Node("cdev", 0o666, dev=(1, 3)),
             b"d/p": Node("fifo", 0o600, mtime=0xFFFFFFFF), b"d/s": Node("sock", 0o755, mtime=0x80000000),
             b"d/hl": Node("file", link_to=b"d/f")}
        return t, {"comp": "xz", "bs": 131072, "input": "dir", "k": True, "x": True, "e": True, "extra": []}, "ok"
    cases.append(("all-types-packdir", all_types_dir))
    return cases


def heavy_cases():
    cases = []

    def sparse4g(r):
        t = {b"": Node("dir", 0o755), b"big": Node("file", 0o644, data=[("zero", (4 << 30)), ("bytes", b"X")]),
             b"small": Node("file", 0o644, data=[("bytes", b"s")])}
        return t, {"comp": "gzip", "bs": 1 << 20, "input": "dir", "extra": []}, "ok"
    cases.append(("sparse-4GiB+1", sparse4g))

    def manyblocks(r):
        t = {b"": Node("dir", 0o755), b"big": Node("file", 0o644, data=[("zero", (2 << 30)), ("bytes", b"tail")])}
        return t, {"comp": "lz4", "bs": 4096, "input": "dir", "extra": [], "stack_kb": 1024}, "ok"
    cases.append(("2GiB-at-4K-blocks-small-stack", manyblocks))

    def bigdir(r):
        t = {b"": Node("dir", 0o755), b"d": Node("dir", 0o755)}
        for i in range(100000):
            t[b"d/e%06d" % i] = Node("fifo", 0o644)
        return t, {"comp": "zstd", "bs": 131072, "input": "packfile", "extra": []}, "ok"
    cases.append(("dir-100k-entries", bigdir))
    return cases


DIRSIZE_TARGETS = list(range(65529, 65539))


def dirsize_tree(sumlen):
    n = 255
    base, extra = divmod(sumlen, n)
    t = {b"": Node("dir", 0o755), b"d": Node("dir", 0o755), b"d2": Node("dir", 0o700)}
    for i in range(n):
        L = base + (1 if i < extra else 0)
        t[b"d/" + (b"%03d" % i) + b"n" * (L - 3)] = Node("fifo", 0o644)
    t[b"d2/x"] = Node("file", 0o644, data=[("bytes", b"after")])
    return t


def dirsize_case(binaries, target, work, oc):
    """Directory whose listing has exactly `target` bytes (the basic/extended inode boundary at 64 KiB - 3).
    The header count depends on metadata block crossings, so a calibration run measures it first."""
    c = {"comp": "gzip", "bs": 4096, "input": "packfile", "extra": [], "e": False}
    sumlen = 63300
    for attempt in range(4):
        tree = dirsize_tree(sumlen)
        w = os.path.join(work, "cal%d" % attempt)
        os.makedirs(w)
        res, img = packcase.run_pack(binaries, tree, c, w, oc)
        if res.rc != 0 or res.san:
            return tree, c, res, img
        try:
            im = sqfsimg.parse(open(img, "rb").read(), want_content=False)
            got = sum(12 + sum(8 + len(e[3]) for e in h[4]) for h in im.dir_layout.get(b"d", []))
        except Exception:
            # unreadable: let the normal oracle report it
            return tree, c, res, img
        if got == target:
            oc.inc("dirsize_targets_hit")
            return tree, c, res, img
        if abs(target - got) > 3000 or not (255 * 4 <= sumlen + target - got <= 255 * 256):
            # not a calibration problem: hand the image to the normal oracle
            return tree, c, res, img
        sumlen += target - got
    return tree, c, res, img


def run_case(arg):
    kind, idx, tier = arg
    binaries = build.build("asan")
    oc = core.Outcome("%s-%d" % (kind, idx))
    try:
        with core.Scratch("c01") as work:
            r = core.rng_for(PROP, kind, idx)
            cli = True
            if kind == "boundary":
                name, builder = boundary_cases()[idx]
                tree, c, want = builder(r)
                feats = {name}
                oc.case_id = name
                cli = len(tree) <= 600
            elif kind == "dirsize":
                tree, c, want = None, None, "ok"
                feats = {"dir-listing-%d-bytes" % DIRSIZE_TARGETS[idx]}
                oc.case_id = "dir-listing-%d-bytes" % DIRSIZE_TARGETS[idx]
                cli = True
            elif kind == "heavy":
                name, builder = heavy_cases()[idx]
                tree, c, want = builder(r)
                feats = {name}
                oc.case_id = name
                cli = False
            else:
                c = packcase.rand_config(r, small=(tier == "quick"))
                tree, feats = gentree.gen_tree(r, bs=c["bs"], max_entries=60 if tier == "quick" else 150)
                want = "ok"
                if c["input"] not in ("dir", "glob"):
                    # pack files are line based
                    if any(b"\n" in p or (n.target and b"\n" in n.target) for p, n in tree.items()):
                        c["input"] = "dir"
                    else:
                        c["xattr_file"] = packcase.xattr_file_ok(tree) and r.random() < 0.7
                        c["always_quote"] = r.random() < 0.3
                if c["input"] in ("dir", "glob"):
                    for p, n in tree.items():
                        # chown(-1) means "leave unchanged": not materialisable
                        if n.uid == 0xFFFFFFFF:
                            n.uid = 0xFFFFFFFE
                        if n.gid == 0xFFFFFFFF:
                            n.gid = 0xFFFFFFFE
                        if n.dev and (n.dev[0] >= 4096 or n.dev[1] >= (1 << 20)):
                            want = "refuse"
                feats = set(feats) | {"in:" + c["input"], "comp:" + c["comp"], "bs:%d" % c["bs"]} | \
                    {k for k in ("T", "e", "k", "x", "H", "all_root") if c.get(k)} | \
                    ({"defaults"} if c.get("defaults") else set()) | ({"set-ids"} if c.get("set_uid") is not None or c.get("set_gid") is not None else set()) | \
                    ({"j%s" % c.get("j")}) | ({"xattr-file"} if c.get("xattr_file") else set())
            oc.features = tuple(sorted(feats))
            if kind == "dirsize":
                tree, c, res, img = dirsize_case(binaries, DIRSIZE_TARGETS[idx], work, oc)
            else:
                res, img = packcase.run_pack(binaries, tree, c, work, oc, stack_kb=c.get("stack_kb"))
            oc.sample = {"case": oc.case_id, "config": {k: v for k, v in c.items() if v not in (None, False, [])},
                         "entries": len(tree), "exit": res.rc}
            if res.san:
                oc.violate(res.san, "gensquashfs %s" % oc.case_id, {"stderr.txt": res.err})
                return oc
            if res.hang:
                oc.violate("gensquashfs:hang:%s" % (oc.case_id if kind != "random" else "random"), "timeout")
                return oc
            if want == "refuse":
                oc.inc("unrepresentable_inputs")
                if res.rc == 0:
                    oc.violate("unrepresentable-accepted:%s" % _feature_class(oc.case_id, kind), "exit 0 for an input the format cannot represent")
                elif os.path.exists(img):
                    oc.violate("unrepresentable-left-output:%s" % _feature_class(oc.case_id, kind), "exit %d but output exists" % res.rc)
                else:
                    oc.inc("unrepresentable_refused")
                return oc
            if res.rc != 0:
                oc.violate("fidelity:pack-fails:%s" % _feature_class(oc.case_id, kind), "rc=%d %s" % (res.rc, res.err[-300:]))
                return oc
            expected = packcase.expected_for(tree, c)
            packcase.decode_and_compare(binaries, img, expected, tree, c, work, oc, r, cli=cli, unpack=cli)
    except Exception as e:
        oc.inconclusive.append("harness exception: %s" % traceback.format_exc()[-600:])
    return oc


def _feature_class(case_id, kind):
    if kind == "random":
        return "random"
    return case_id


def main(tier):
    rep = core.Report(PROP, tier, "exploration",
                      "each case = one generated tree x one gensquashfs configuration; distinct = distinct feature vectors "
                      "(content classes, inode types, options, boundary name); non-trivial = at least one boundary value or two interacting features")
    build.build("asan")
    nb = len(boundary_cases())
    nrand = 120 if tier == "quick" else 2500
    items = [("boundary", i, tier) for i in range(nb)] + [("dirsize", i, tier) for i in range(len(DIRSIZE_TARGETS))] + \
        [("random", i, tier) for i in range(nrand)]
    if tier == "thorough":
        items += [("heavy", i, tier) for i in range(len(heavy_cases()))]
    only = os.environ.get("VERIF_ONLY")
    if only:
        k, i = only.split(":")
        items = [(k, int(i), tier)]
    for oc in core.pmap(run_case, items):
        if only:
            print(oc.sample, oc.violations, oc.inconclusive, oc.counters)
        # C03 keys are reported by the C03 check
        oc.violations = [v for v in oc.violations if not v[0].startswith("c03:")]
        rep.add(oc)
    rep.required_nonzero = ["parser_fields", "cli_stat", "cli_cat", "cli_unpack", "unrepresentable_inputs", "dirsize_targets_hit"]
    rep.assumptions = ["independent parser vp/sqfsimg.py is correct (cross-checked against rdsquashfs views on every image)",
                       "tmpfs/ext4 semantics of the sandbox for mknod/chown/xattr"]
    return rep.finish()
