"""Writes /verif/MANIFEST.json from the table below (kept valid at all times)."""
import json, os, subprocess
VERIF = os.path.dirname(os.path.dirname(os.path.abspath(__file__)))

CHECKS = {}
NOT_YET = {}


def chk(pid, category, text, note, technique, design_ref):
    CHECKS[pid] = dict(property_id=pid, quick_cmd="./check %s --tier quick" % pid,
                       thorough_cmd="./check %s --tier thorough" % pid,
                       evidence_file="evidence/%s.json" % pid,
                       replay_cmd_template="./check %s --replay {path}" % pid,
                       engine="vp",
                       level_claimed=dict(category=category, text=text, design_ref=design_ref),
                       level_note=note, technique=technique)


exec(open(os.path.join(VERIF, "vp", "manifest_table.py")).read())


def hook_commits():
    try:
        out = subprocess.run(["git", "-C", "/repo", "log", "--format=%H %s"], capture_output=True, text=True).stdout
    except Exception:
        return []
    return [l.split()[0] for l in out.splitlines() if " hook:" in l]


def main():
    props = [json.loads(l)["id"] for l in open(os.path.join(VERIF, "properties.jsonl"))]
    m = {
        "version": 1,
        "setup_cmd": "/usr/bin/python3 -B -m vp.setup",
        "hooks": {
            "guard": "SQFSNG_VERIF",
            "enable": "vp/build.py compiles /repo's working tree out of tree (under /var/tmp/sqfsng-verif) with -DSQFSNG_VERIF and links rt/verif_rt.c with -Wl,--wrap=...; the tsan/fuzz/val variants are built with the guard off",
            "baseline_off_cmd": "make -C /repo -j8 check",
            "source_commits": hook_commits(),
            "add_only": True,
        },
        "engines": [
            {"name": "vp", "path": "vp/", "serves_properties": sorted(CHECKS),
             "kind_free_text": "python runner: builds sanitizer variants of the working tree, generates workloads, runs the real tools/harnesses, applies oracles, writes evidence"},
            {"name": "rt", "path": "rt/verif_rt.c", "serves_properties": ["C02", "C08", "C11", "C12", "C13", "C14"],
             "kind_free_text": "linked-in runtime: event sink for source hooks, link-time wrappers injecting short I/O, EINTR, faults, kills, readdir orders, weak checksums, delays"},
        ],
        "checks": [CHECKS[p] for p in props if p in CHECKS],
        "not_applicable": [{"property_id": p, "reason": NOT_YET.get(p, "check not built yet in this session; see DESIGN.md section 3 for the planned monitor")}
                           for p in props if p not in CHECKS],
        "notes": "See DESIGN.md. Known findings and fixed defects: known_findings.json.",
    }
    with open(os.path.join(VERIF, "MANIFEST.json"), "w") as f:
        json.dump(m, f, indent=1)
    print("MANIFEST.json: %d checks, %d not claimed" % (len(m["checks"]), len(m["not_applicable"])))


if __name__ == "__main__":
    main()
