"""C11: image bytes independent of readdir order (orders injected under the real tool)."""
import os, traceback
from . import core, build, gentree
from .gentree import Node

PROP = "C11"


def make_tree(r, idx):
    if idx % 3 == 0:
        # multiply-linked files whose names sort on both sides of unrelated names
        t = {b"": Node("dir", 0o755), b"a": Node("file", 0o644, data=[("bytes", b"linked")]), b"b": Node("file", 0o644, data=[("bytes", b"other")]),
             b"c": Node("file", link_to=b"a"), b"d": Node("dir", 0o755), b"d/z": Node("file", link_to=b"a"), b"d/m": Node("fifo", 0o600),
             b"d/n": Node("fifo", link_to=b"d/m"), b"d/0": Node("slink", 0o777, target=b"x"), b"d/9": Node("slink", link_to=b"d/0"),
             b"e": Node("dir", 0o700), b"e/q": Node("file", 0o600, data=[("rand", 5, 9000)]), b"e/a": Node("file", link_to=b"e/q"), b"e/zz": Node("file", link_to=b"e/q")}
        return t, {"hardlink"}
    if idx % 6 == 2:
        # names that differ only in case, linked across; a directory that holds nothing but sub directories with a file linked into several of them
        t = {b"": Node("dir", 0o755), b"Data": Node("dir", 0o755), b"data": Node("dir", 0o755), b"DATA": Node("dir", 0o700),
             b"Data/f": Node("file", 0o644, data=[("bytes", b"case")]), b"data/f": Node("file", link_to=b"Data/f"), b"DATA/f": Node("file", link_to=b"Data/f"),
             b"Makefile": Node("file", 0o644, data=[("bytes", b"mk")]), b"a.c": Node("file", 0o644, data=[("bytes", b"c")]), b"makefile": Node("file", link_to=b"Makefile"),
             b"MAKEFILE": Node("file", link_to=b"Makefile"),
             b"only": Node("dir", 0o755), b"only/s1": Node("dir", 0o755), b"only/s2": Node("dir", 0o755), b"only/s3": Node("dir", 0o755),
             b"only/s1/x": Node("file", 0o644, data=[("bytes", b"spread")]), b"only/s2/x": Node("file", link_to=b"only/s1/x"), b"only/s3/x": Node("file", link_to=b"only/s1/x"),
             # (unrelated inodes around the linked name, so that the choice of the primary name moves inode numbers)
             b"only/s1/a": Node("fifo", 0o600), b"only/s1/z": Node("file", 0o644, data=[("bytes", b"z1")]), b"only/s2/a": Node("file", 0o644, data=[("bytes", b"a2")]),
             b"only/s2/z": Node("fifo", 0o600), b"only/s3/k": Node("dir", 0o755), b"only/s3/k/deep": Node("file", 0o600, data=[("bytes", b"deep")]),
             b"one/t1/b": Node("file", 0o644, data=[("bytes", b"b")]), b"one/t2/zz": Node("file", 0o644, data=[("bytes", b"zz")]),
             b"one": Node("dir", 0o755), b"one/t1": Node("dir", 0o755), b"one/t2": Node("dir", 0o755), b"one/single": Node("fifo", 0o600),
             b"one/t2/y": Node("slink", 0o777, target=b"z"), b"one/t1/y": Node("slink", link_to=b"one/t2/y")}
        # directories with exactly one, two and three entries: a file and a sub directory that holds another name of that file
        # (which of the two is met first decides the primary name; tiny directories are where a sort gets "optimised away")
        for d, fname, extra in ((b"two", b"m", []), (b"twob", b"0", []), (b"three", b"m", [b"zz"]), (b"threeb", b"0", [b"zz"])):
            t[d] = Node("dir", 0o755)
            t[d + b"/" + fname] = Node("file", 0o644, data=[("bytes", b"tiny " + d)])
            t[d + b"/a"] = Node("dir", 0o755)
            t[d + b"/a/w"] = Node("file", 0o644, data=[("bytes", b"w")])
            t[d + b"/a/x"] = Node("file", link_to=d + b"/" + fname)
            t[d + b"/a/y"] = Node("fifo", 0o600)
            for e in extra:
                t[d + b"/" + e] = Node("fifo", 0o600)
        t[b"single"] = Node("dir", 0o755)
        t[b"single/a"] = Node("dir", 0o755)
        t[b"single/a/x"] = Node("file", link_to=b"two/m")
        return t, {"hardlink", "case-only-names", "dir-of-dirs", "tiny-dirs"}
    if idx % 3 == 1 and idx % 2 == 1:
        # names that are prefixes of one another, linked, with unrelated entries sorting in between
        t = {b"": Node("dir", 0o755), b"data": Node("file", 0o644, data=[("bytes", b"D")]), b"data.bak": Node("file", link_to=b"data"),
             b"data-x": Node("file", 0o600, data=[("bytes", b"between")]), b"data.a": Node("fifo", 0o600),
             b"lib": Node("dir", 0o755), b"lib64": Node("dir", 0o755), b"lib-x": Node("dir", 0o700), b"lib/f": Node("file", 0o644, data=[("bytes", b"L")]),
             b"lib64/f": Node("file", link_to=b"lib/f"), b"lib-x/g": Node("file", 0o644, data=[("bytes", b"g")]),
             b"a": Node("slink", 0o777, target=b"t"), b"ab": Node("slink", link_to=b"a"), b"aa": Node("fifo", 0o644), b"abc": Node("slink", link_to=b"a")}
        return t, {"hardlink", "prefix-names"}
    if idx % 3 == 1:
        # big directories (more than 64 / 128 entries) with hard links spread over the sorted order
        n = r.choice([70, 100, 130, 200])
        t = {b"": Node("dir", 0o755), b"big": Node("dir", 0o755)}
        names = [b"big/e%03d" % i for i in range(n)]
        for i, nm in enumerate(names):
            t[nm] = Node("file", 0o644, data=[("bytes", b"%d" % i)])
        for _ in range(12):
            a, b = r.sample(range(n), 2)
            if t[names[a]].link_to is None and t[names[b]].link_to is None and not any(x.link_to == names[b] for x in t.values()):
                t[names[b]] = Node("file", link_to=names[a])
        return t, {"hardlink", "big-dir-%d" % n}
    t, feats = gentree.gen_tree(r, bs=4096, max_entries=50, want=("links",))
    for p, n in t.items():
        if n.uid == 0xFFFFFFFF:
            n.uid = 7
        if n.gid == 0xFFFFFFFF:
            n.gid = 7
    return t, feats


def run_tree(arg):
    idx, tier = arg
    oc = core.Outcome("tree-%d" % idx)
    try:
        plain = build.build("plain")
        r = core.rng_for(PROP, "tree", idx)
        tree, feats = make_tree(r, idx)
        with core.Scratch("c11") as work:
            root = os.path.join(work, "in")
            gentree.materialise_dir(tree, root)
            variants = [("plain", ["-D", root]), ("keep", ["-D", root, "-k", "-x"]), ("nohl", ["-D", root, "-H"]), ("onefs", ["-D", root, "-o"])]
            # glob lines
            pf = os.path.join(work, "glob.txt")
            with open(pf, "w") as f:
                f.write("glob / * * * .\n")
            pf2 = os.path.join(work, "glob2.txt")
            with open(pf2, "w") as f:
                f.write("glob /sub 0755 3 4 -nohardlinks -keeptime .\n")
            variants += [("glob", ["-F", pf, "-D", root]), ("glob-nohl", ["-F", pf2, "-D", root])]
            norders = 8 if tier == "quick" else 40
            orders = [(0, 0), (1, 0), (2, 0), (4, 0)] + [(3, core.SEED * 1000 + i) for i in range(norders - 4)] + \
                [(5, k) for k in (1, 63, 64, 65, 127, 128, 129)] + [(6, core.SEED + 1), (6, core.SEED + 40)]
            vsel = variants if tier == "thorough" else [variants[0], variants[idx % len(variants)], variants[(idx + 2) % len(variants)]]
            for vname, vargs in vsel:
                shas = {}
                delivered = set()
                for mode, seed in orders:
                    out = os.path.join(work, "o.sqfs")
                    ev = os.path.join(work, "ev")
                    res = core.run_tool([plain["gensquashfs"], "-c", "gzip", "-b", "4096", "-q", "-f"] + vargs + [out],
                                        env={"VERIF_READDIR": "%d:%d" % (mode, seed), "VERIF_EVLOG": ev}, timeout=120)
                    oc.inc("runs")
                    if res.san:
                        oc.violate(res.san, "gensquashfs %s" % vname, {"stderr.txt": res.err})
                        continue
                    if res.rc != 0:
                        oc.violate("order:pack-fails-under-order", "%s mode %d rc=%d %s" % (vname, mode, res.rc, res.err[-200:]))
                        continue
                    shas.setdefault(core.sha_file(out), []).append((mode, seed))
                    try:
                        with open(ev) as f:
                            for l in f:
                                p = l.split()
                                if len(p) == 6 and p[2] == "104" and int(p[4]) > 3:
                                    delivered.add((p[4], p[5]))
                    except OSError:
                        pass
                oc.inc("orders_delivered", len(delivered))
                if len(shas) > 1:
                    has_links = any(n.link_to is not None for n in tree.values())
                    key = "order:hardlink-primary-depends-on-readdir" if has_links and vname not in ("nohl", "glob-nohl") else "order:image-depends-on-readdir:%s" % vname
                    oc.violate(key, "%s: %d different images for orders %r" % (vname, len(shas), [v[0] for v in shas.values()]))
                else:
                    oc.inc("variants_identical")
            oc.features = tuple(sorted(feats))[:6] + (idx % 3,)
            oc.sample = {"tree": idx, "entries": len(tree), "variants": [v[0] for v in vsel], "orders": orders[:6]}
    except Exception:
        oc.inconclusive.append("harness exception: %s" % traceback.format_exc()[-600:])
    return oc


def main(tier):
    rep = core.Report(PROP, tier, "exploration",
                      "each evaluation = one directory tree packed under identity/reverse/sorted/reverse-sorted/seeded-shuffle readdir orders "
                      "(injected by wrapping readdir under the real tool) x option variants (-k -x, -H, -o, glob lines); all images of a variant must be byte identical; "
                      "distinct = distinct tree feature vectors; the wrapper log proves different orders were delivered")
    build.build("plain")
    n = 18 if tier == "quick" else 72
    for oc in core.pmap(run_tree, [(i, tier) for i in range(n)]):
        rep.add(oc)
    rep.extra["trees"] = rep.evaluations
    rep.evaluations = rep.counters.get("runs", 0)
    rep.required_nonzero = ["runs", "orders_delivered", "variants_identical"]
    return rep.finish()
