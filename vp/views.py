"""Reader views of an image through the rdsquashfs CLI (asan build) and the
expected-result helpers shared by several properties."""
import os, re, stat, hashlib, shutil
from . import core, sqfsimg, gentree

U32 = 0xFFFFFFFF
TYPE_STR = {"dir": "directory", "file": "file", "slink": "symbolic link", "bdev": "block device",
            "cdev": "character device", "fifo": "named pipe", "sock": "socket"}


def clamp_time(t):
    return max(0, min(int(t), U32))


def expect_from_tree(tree, defaults=None, keep_time=False, set_uid=None, set_gid=None, keep_xattr=True,
                     hard_links=True, root_from_defaults=True, packfile=False):
    """Expected tree_model (path -> dict) for a gensquashfs run over `tree`."""
    d = {"uid": 0, "gid": 0, "mode": 0o755, "mtime": 0}
    d.update(defaults or {})
    out = {}
    groups = {}
    for p, n in tree.items():
        src = tree[n.link_to] if n.link_to is not None else n
        prim = n.link_to if n.link_to is not None else p
        e = {"type": src.type, "mode": src.mode & 0o7777, "uid": src.uid, "gid": src.gid,
             "mtime": clamp_time(src.mtime) if keep_time else d["mtime"],
             "xattrs": sorted(src.xattrs.items()) if keep_xattr else []}
        if src.type == "slink":
            e["mode"] = 0o777
            e["target"] = src.target
        if src.type == "file":
            e["size"] = gentree.spec_len(src.data or [])
            e["sha256"] = gentree.spec_sha(src.data or [])
        if src.type in ("bdev", "cdev"):
            e["devno"] = gentree.devno(*src.dev)
        if p == b"" and root_from_defaults:
            e["mode"], e["uid"], e["gid"], e["mtime"] = d["mode"], d["uid"], d["gid"], d["mtime"]
            if not packfile:
                pass
        if set_uid is not None:
            e["uid"] = set_uid
        if set_gid is not None:
            e["gid"] = set_gid
        e["group"] = prim if hard_links else p
        groups.setdefault(e["group"], []).append(p)
        out[p] = e
    for p, e in out.items():
        if e["type"] != "dir":
            e["nlink"] = len(groups[e["group"]])
    return out


def compare_models(expected, actual, oc, view, fields=("type", "mode", "uid", "gid", "mtime", "target", "devno", "size", "sha256", "xattrs"),
                   check_links=True, keyprefix="fidelity"):
    """Compares expected (from expect_from_tree) with a tree_model from the parser (or a CLI view)."""
    n = 0
    ep, ap = set(expected), set(actual)
    if ep != ap:
        miss = sorted(ep - ap)[:3]
        extra = sorted(ap - ep)[:3]
        oc.violate("%s:%s:path-set" % (keyprefix, view), "missing %r extra %r" % (miss, extra))
        return 0
    for p in expected:
        e, a = expected[p], actual[p]
        for f in fields:
            if f in e:
                n += 1
                if f not in a:
                    continue
                if e[f] != a[f]:
                    oc.violate("%s:%s:%s" % (keyprefix, view, f), "%r: expected %r got %r" % (p, _short(e[f]), _short(a[f])))
    if check_links:
        # same group <=> same inode number; nlink = group size
        by_ino = {}
        for p, a in actual.items():
            if "ino" in a:
                by_ino.setdefault(a["ino"], set()).add(p)
        if by_ino:
            by_grp = {}
            for p, e in expected.items():
                by_grp.setdefault(e["group"], set()).add(p)
            eg = sorted(sorted(s) for s in by_grp.values())
            ag = sorted(sorted(s) for s in by_ino.values())
            n += len(eg)
            if eg != ag:
                bad = [g for g in eg if g not in ag][:2]
                oc.violate("%s:%s:hardlink-groups" % (keyprefix, view), "expected groups %r not found; e.g. actual %r" % (bad, [g for g in ag if g not in eg][:2]))
            for p, e in expected.items():
                if "nlink" in e and "nlink" in actual[p] and actual[p]["nlink"] is not None:
                    if e["nlink"] != actual[p]["nlink"]:
                        oc.violate("%s:%s:nlink" % (keyprefix, view), "%r expected %d got %d" % (p, e["nlink"], actual[p]["nlink"]))
    return n


def _short(v):
    s = repr(v)
    return s if len(s) < 160 else s[:160] + "..."


# ------------------------------------------------------------------ CLI views

_stat_types = {"file": "file", "extended file": "file", "directory": "dir", "extended directory": "dir",
               "symbolic link": "slink", "extended symbolic link": "slink", "block device": "bdev",
               "extended block device": "bdev", "character device": "cdev", "extended character device": "cdev",
               "named pipe": "fifo", "extended named pipe": "fifo", "socket": "sock", "extended socket": "sock"}


def parse_stat(out):
    res = {}
    lines = out.split(b"\n")
    for i, l in enumerate(lines):
        if l.startswith(b"Inode type: "):
            res["type"] = _stat_types.get(l[12:].decode(errors="replace"), l[12:].decode(errors="replace"))
        elif l.startswith(b"Inode number: "):
            res["ino"] = int(l[14:])
        elif l.startswith(b"Access: "):
            res["mode"] = int(l[8:], 8)
        elif l.startswith(b"UID: "):
            res["uid"] = int(l[5:].split()[0])
        elif l.startswith(b"GID: "):
            res["gid"] = int(l[5:].split()[0])
        elif l.startswith(b"Last modified: "):
            m = re.search(rb"\((\d+)\)\s*$", l)
            if m:
                res["mtime"] = int(m.group(1))
        elif l.startswith(b"Hard link count: "):
            res["nlink"] = int(l[17:])
        elif l.startswith(b"Link target: "):
            # the target may contain newlines: everything up to the end
            res["target"] = b"\n".join([l[13:]] + lines[i + 1:]).rstrip(b"\n")
            break
        elif l.startswith(b"Device number: "):
            m = re.search(rb"\((\d+)\)", l)
            if m:
                res["devno"] = int(m.group(1))
        elif l.startswith(b"File size: "):
            res["size"] = int(l[11:])
    return res


def rd(binaries, args, image, timeout=60, **kw):
    return core.run_tool([binaries["rdsquashfs"]] + args + [image], timeout=timeout, **kw)


def cli_views(binaries, image, expected, oc, rng, max_nodes=40, keyprefix="fidelity"):
    """stat / cat / xattr / list views for (a sample of) nodes; violations recorded on oc."""
    paths = [p for p in expected]
    if len(paths) > max_nodes:
        paths = rng.sample(paths, max_nodes)
        if b"" not in paths:
            paths.append(b"")
    actual = {}
    for p in paths:
        e = expected[p]
        arg = b"/" + p
        r = rd(binaries, ["-s", arg], image)
        oc.inc("cli_stat")
        if r.san:
            oc.violate(r.san, "rdsquashfs -s %r" % p, {"stderr.txt": r.err})
            continue
        if r.hang:
            oc.violate("rdsquashfs:hang:stat", repr(p))
            continue
        if r.rc != 0:
            oc.violate("%s:stat:fails" % keyprefix, "rdsquashfs -s %r rc=%d %s" % (p, r.rc, r.err[:200]))
            continue
        st = parse_stat(r.out)
        if st.get("type") == "file" and "nlink" not in st:
            st["nlink"] = None
        actual[p] = st
        if e["type"] == "file":
            r = rd(binaries, ["-c", arg], image, timeout=300)
            oc.inc("cli_cat")
            if r.san:
                oc.violate(r.san, "rdsquashfs -c %r" % p, {"stderr.txt": r.err})
            elif r.rc != 0:
                oc.violate("%s:cat:fails" % keyprefix, "%r rc=%d %s" % (p, r.rc, r.err[:200]))
            else:
                st["sha256"] = hashlib.sha256(r.out).hexdigest()
        if e.get("xattrs"):
            r = rd(binaries, ["-x", arg], image)
            oc.inc("cli_xattr")
            if r.san:
                oc.violate(r.san, "rdsquashfs -x %r" % p, {"stderr.txt": r.err})
            elif r.rc != 0:
                oc.violate("%s:xattr:fails" % keyprefix, "%r rc=%d %s" % (p, r.rc, r.err[:200]))
            else:
                # compare only values on which the printed format is injective
                for k, v in e["xattrs"]:
                    if v and all(0x20 <= c < 0x7f for c in v) and b"\n" not in k:
                        if (k + b"=" + v) not in r.out.split(b"\n"):
                            oc.violate("%s:xattr-view:value" % keyprefix, "%r %r=%r not in %r" % (p, k, v, r.out[:200]))
                    elif v and any((c < 0x07 and c != 0) or c == 0x7f or 0x0e <= c < 0x20 for c in v):
                        if (k + b"=0x" + v.hex().upper().encode()) not in r.out.split(b"\n"):
                            oc.violate("%s:xattr-view:hexvalue" % keyprefix, "%r %r=%r not in %r" % (p, k, v, r.out[:200]))
    sub_exp = {p: expected[p] for p in actual}
    # without the hard-link relation (sampled), but with nlink
    n = 0
    for p, st in actual.items():
        e = expected[p]
        for f in ("type", "mode", "uid", "gid", "mtime", "target", "devno", "size", "sha256"):
            if f in e and f in st:
                n += 1
                if e[f] != st[f]:
                    oc.violate("%s:stat:%s" % (keyprefix, f), "%r expected %r got %r" % (p, _short(e[f]), _short(st[f])))
        if "nlink" in e and st.get("nlink") is not None and e["type"] != "dir":
            if e["nlink"] != st["nlink"]:
                oc.violate("%s:stat:nlink" % keyprefix, "%r expected %d got %d" % (p, e["nlink"], st["nlink"]))
    # inode numbers: same group <=> same number among sampled
    seen = {}
    for p, st in actual.items():
        if "ino" in st:
            g = expected[p]["group"]
            seen.setdefault(st["ino"], set()).add(g)
    for ino, gs in seen.items():
        if len(gs) > 1:
            oc.violate("%s:stat:hardlink-groups" % keyprefix, "inode %d shared by groups %r" % (ino, sorted(gs)[:3]))
    oc.inc("cli_fields", n)
    return actual


def mode_str(typ, mode):
    c = {"dir": "d", "cdev": "c", "bdev": "b", "file": "-", "slink": "l", "sock": "s", "fifo": "p"}[typ]
    s = c
    s += "r" if mode & 0o400 else "-"
    s += "w" if mode & 0o200 else "-"
    s += {0o4100: "s", 0o100: "x", 0o4000: "S", 0: "-"}[mode & 0o4100]
    s += "r" if mode & 0o40 else "-"
    s += "w" if mode & 0o20 else "-"
    s += {0o2010: "s", 0o10: "x", 0o2000: "S", 0: "-"}[mode & 0o2010]
    s += "r" if mode & 0o4 else "-"
    s += "w" if mode & 0o2 else "-"
    s += {0o1001: "t", 0o1: "x", 0o1000: "T", 0: "-"}[mode & 0o1001]
    return s


def list_view(binaries, image, expected, oc, dirs, keyprefix="fidelity"):
    """rdsquashfs -l on the given directories: names, order, mode string, owners, link targets."""
    for d in dirs:
        r = rd(binaries, ["-l", b"/" + d], image)
        oc.inc("cli_list")
        if r.san:
            oc.violate(r.san, "rdsquashfs -l %r" % d, {"stderr.txt": r.err})
            continue
        if r.rc != 0:
            oc.violate("%s:list:fails" % keyprefix, "%r rc=%d %s" % (d, r.rc, r.err[:200]))
            continue
        kids = sorted(p[len(d) + 1 if d else 0:] for p in expected
                      if p and (p.startswith(d + b"/") if d else True) and b"/" not in p[len(d) + 1 if d else 0:])
        # expected line endings in order
        out = r.out
        pos = 0
        for k in kids:
            e = expected[d + b"/" + k if d else k]
            tail = b" " + k + (b" -> " + e["target"] if e["type"] == "slink" else b"") + b"\n"
            head = mode_str(e["type"], e["mode"]).encode() + b" "
            i = out.find(tail, pos)
            if i < 0:
                oc.violate("%s:list:entry" % keyprefix, "dir %r: entry %r missing or out of order in %r" % (d, k, out[:300]))
                break
            ls = out.rfind(b"\n", 0, i) + 1
            # the line may start earlier if names contain newlines; only check prefix of the line start we can find
            line = out[ls:i + len(tail)]
            if b"\n" not in k and not line.startswith(head):
                oc.violate("%s:list:mode" % keyprefix, "dir %r entry %r: line %r does not start with %r" % (d, k, line[:80], head))
            else:
                own = (b"%d/%d" % (e["uid"], e["gid"]))
                if b"\n" not in k and own.replace(b" ", b"") not in line.replace(b" ", b""):
                    oc.violate("%s:list:owner" % keyprefix, "dir %r entry %r: %r lacks %r" % (d, k, line[:80], own))
            pos = i + len(tail) - 1
        oc.inc("cli_list_entries", len(kids))


def snapshot_dir(root, with_content=True):
    """lstat walk of an unpacked tree -> path -> dict."""
    rootb = os.fsencode(root)
    out = {}

    def add(full, rel):
        st = os.lstat(full)
        e = {"mode": stat.S_IMODE(st.st_mode), "uid": st.st_uid, "gid": st.st_gid, "mtime": int(st.st_mtime),
             "mtime_ns": st.st_mtime_ns, "nlink": st.st_nlink, "dev_ino": (st.st_dev, st.st_ino)}
        fmt = stat.S_IFMT(st.st_mode)
        if fmt == stat.S_IFDIR:
            e["type"] = "dir"
        elif fmt == stat.S_IFREG:
            e["type"] = "file"
            e["size"] = st.st_size
            e["blocks"] = st.st_blocks
            if with_content:
                e["sha256"] = core.sha_file(full)
        elif fmt == stat.S_IFLNK:
            e["type"] = "slink"
            e["target"] = os.readlink(full)
        elif fmt == stat.S_IFBLK:
            e["type"] = "bdev"
            e["devno"] = gentree.devno(os.major(st.st_rdev), os.minor(st.st_rdev))
        elif fmt == stat.S_IFCHR:
            e["type"] = "cdev"
            e["devno"] = gentree.devno(os.major(st.st_rdev), os.minor(st.st_rdev))
        elif fmt == stat.S_IFIFO:
            e["type"] = "fifo"
        elif fmt == stat.S_IFSOCK:
            e["type"] = "sock"
        try:
            xs = []
            for k in os.listxattr(full, follow_symlinks=False):
                kb = os.fsencode(k)
                xs.append((kb, os.getxattr(full, kb, follow_symlinks=False)))
            e["xattrs"] = sorted(xs)
        except OSError:
            e["xattrs"] = []
        out[rel] = e
        if fmt == stat.S_IFDIR:
            for n in sorted(os.listdir(full)):
                add(full + b"/" + n, rel + b"/" + n if rel else n)
    add(rootb, b"")
    return out


def force_rmtree(path):
    """rmtree that copes with mode-000 directories (we are root, so chmod is not needed)."""
    try:
        shutil.rmtree(path, ignore_errors=True)
    except Exception:
        pass              # RecursionError for trees thousands of levels deep
    if os.path.lexists(path):
        import subprocess
        subprocess.run(["rm", "-rf", path], stdout=subprocess.DEVNULL, stderr=subprocess.DEVNULL)
