"""C08: deduplication never changes data even when block/fragment checksums collide (xxh32 masked to 2..8 bits at link time)."""
import os, traceback, collections
from . import core, build, gentree, sqfsimg, views
from .gentree import Node

PROP = "C08"


def make_tree(r, bs):
    t = {b"": Node("dir", 0o755)}
    names = []
    pool_blocks = [("rand", 7000 + i, bs) for i in range(8)]
    # single-block incompressible files, equal size
    singles = [[("rand", 100 + i, bs)] for i in range(r.choice([20, 40]))]
    # multi-block files from a small pool of blocks (hash-sequence matches that differ in bytes, overlapping runs)
    multis = []
    for i in range(r.choice([10, 20])):
        k = r.choice([2, 3, 4, 6])
        segs = [r.choice(pool_blocks) for _ in range(k)]
        if r.random() < 0.5:
            segs.append(("rand", 9000 + i, r.choice([50, 100, 100, bs // 2])))
        multis.append(segs)
    # tails of equal size
    tsz = r.choice([64, 100, 333])
    tails = [[("rand", 20000 + i, tsz)] for i in range(r.choice([40, 80]))]
    # compressible equal-size tails too
    ctails = [[("rep", b"%04d" % i, tsz)] for i in range(20)]
    # block runs that share their leading blocks and differ only in a short last part (stored as a block of its own with -T):
    # the byte compare of two runs must reach the end of the last, partial chunk
    lastsz = r.choice([1000, bs // 2 + 1, bs - 1, 17])
    prefix = [[pool_blocks[0], pool_blocks[1], ("rand", 30000 + i, lastsz)] for i in range(8)]
    groups = singles + multis + tails + ctails + prefix
    items = list(groups)
    # true duplicates
    for _ in range(len(groups) // 2):
        items.append(r.choice(groups))
    r.shuffle(items)
    for i, spec in enumerate(items):
        t[b"f%04d" % i] = Node("file", 0o644, data=spec)
    return t


def analyse_log(path, oc):
    """Hook assertions: every share is preceded by a byte compare with outcome equal on the same operands."""
    try:
        lines = open(path).read().split("\n")
    except OSError:
        oc.inconclusive.append("no event log")
        return
    last_frag_cmp = None
    last_blk_cmp = None
    for l in lines:
        p = l.split()
        if len(p) != 6:
            continue
        kind, a, b, c = int(p[2]), int(p[3]), int(p[4]), int(p[5])
        if kind == 20:
            last_frag_cmp = (a, b, c)
            oc.inc("fragcmp_src%d_%s" % (a, "equal" if b == 0 else "different"))
        elif kind == 12:
            oc.inc("frag_shares")
            if last_frag_cmp is None or last_frag_cmp[1] != 0 or last_frag_cmp[2] != a:
                oc.violate("hook:fragment-shared-without-equal-byte-compare", "share of fragment block %d offset %d, last compare %r" % (a, b, last_frag_cmp))
            last_frag_cmp = None
        elif kind == 13:
            last_frag_cmp = None
        elif kind == 21:
            last_blk_cmp = (a, b, c)
            oc.inc("blkcmp_%s" % ("equal" if b == 0 else "different" if b == 1 else "error"))
        elif kind == 22:
            oc.inc("block_run_shares")
            if last_blk_cmp is None or last_blk_cmp[1] != 0 or last_blk_cmp[0] != a:
                oc.violate("hook:block-run-shared-without-equal-byte-compare", "share at index %d count %d, last compare %r" % (a, b, last_blk_cmp))
            last_blk_cmp = None
        elif kind == 108:
            oc.inc("hash_calls")


def run_case(arg):
    idx, tier = arg
    oc = core.Outcome("w%d" % idx)
    try:
        B = build.build("asan")
        r = core.rng_for(PROP, "w", idx)
        bs = r.choice([4096, 4096, 8192])
        bits = [2, 4, 8][idx % 3]
        comp = r.choice(["gzip", "xz", "lz4", "zstd"])
        j = r.choice([1, 2, 4])
        Q = r.choice([1, 2, 3, 5, 50])
        tool = "gensquashfs" if idx % 4 else "tar2sqfs"
        tree = make_tree(r, bs)
        oc.features = (bits, comp, bs, j, Q, tool)
        with core.Scratch("c08") as work:
            root = os.path.join(work, "in")
            gentree.materialise_dir(tree, root)
            out = os.path.join(work, "o.sqfs")
            ev = os.path.join(work, "ev")
            env = {"VERIF_HASH_BITS": str(bits), "VERIF_EVLOG": ev, "VERIF_EVMAX": "3000000"}
            base = ["-c", comp, "-b", str(bs), "-j", str(j), "-Q", str(Q), "-q"] + (["-T"] if idx % 3 == 2 else [])
            flagged = {}
            if tool == "gensquashfs" and idx % 3 == 1:
                # per-file packing flags from a sort file (same priority, so the order is unchanged)
                sf = os.path.join(work, "sort.txt")
                lines = []
                for d in "0123456789":
                    fl = r.choice([[], ["dont_compress"], ["dont_fragment"], ["nosparse"], ["dont_compress", "dont_fragment"]])
                    if fl:
                        lines.append("0 [glob,%s] f???%s" % (",".join(fl), d))
                        for p in tree:
                            if p.endswith(d.encode()) and p:
                                flagged[p] = tuple(fl)
                with open(sf, "w") as f:
                    f.write("\n".join(lines) + "\n")
                base += ["-S", sf]
                oc.inc("runs_with_sort_flags")
            if tool == "gensquashfs":
                res = core.run_tool([B[tool]] + base + ["-D", root, out], env=env, timeout=600)
            else:
                import subprocess
                tarf = os.path.join(work, "in.tar")
                subprocess.run(["/usr/bin/tar", "--sort=name", "-cf", tarf, "-C", root, "."], check=True)
                res = core.run_tool([B[tool]] + base + [out], env=env, timeout=600, stdin_file=tarf)
            oc.sample = {"workload": idx, "tool": tool, "hash_bits": bits, "comp": comp, "bs": bs, "j": j, "Q": Q, "files": len(tree) - 1, "exit": res.rc}
            if res.san:
                oc.violate(res.san, "%s with %d-bit checksum" % (tool, bits), {"stderr.txt": res.err})
                return oc
            if res.hang or res.rc != 0:
                oc.violate("dedup:%s-fails-under-collisions" % tool, "rc=%s %s" % (res.rc, res.err[-300:]))
                return oc
            analyse_log(ev, oc)
            data = open(out, "rb").read()
            try:
                im = sqfsimg.parse(data)
            except sqfsimg.ParseError as e:
                oc.violate("dedup:image-unreadable", str(e)[:200])
                return oc
            for rule, where, detail in im.problems:
                oc.violate("dedup:c03:" + rule, "%s %s" % (where, detail))
            # content
            by_content = collections.defaultdict(list)
            for p, n in tree.items():
                if n.type != "file":
                    continue
                ino = im.tree.get(p)
                if ino is None:
                    oc.violate("dedup:file-missing", repr(p))
                    continue
                want = gentree.spec_sha(n.data)
                oc.inc("files_compared")
                if ino.sha256 != want:
                    oc.violate("dedup:content-differs:parser", "%r: expected %s got %s (size %d)" % (p, want[:12], (ino.sha256 or "")[:12], ino.size))
                by_content[(want, flagged.get(p, ()))].append((p, ino))
            # identical files share storage
            for sha, lst in by_content.items():
                if len(lst) < 2:
                    continue
                locs = set()
                for p, ino in lst:
                    nonsparse = [w for w in ino.block_words if w & 0xFFFFFF]
                    locs.add((ino.blocks_start if nonsparse else None, tuple(ino.block_words), ino.frag_idx, ino.frag_off if ino.frag_idx != sqfsimg.NOFRAG else None))
                oc.inc("duplicate_groups")
                if len(locs) > 1:
                    oc.violate("dedup:identical-files-not-shared", "%d identical files stored at %d different places, e.g. %r" % (len(lst), len(locs), sorted(map(str, locs))[:2]))
            # CLI view on a sample
            sample = r.sample(sorted(p for p, n in tree.items() if n.type == "file"), 12)
            for p in sample:
                rr = views.rd(B, ["-c", b"/" + p], out, timeout=120)
                oc.inc("cli_cat")
                import hashlib
                if rr.san:
                    oc.violate(rr.san, "rdsquashfs -c", {"stderr.txt": rr.err})
                elif rr.rc != 0 or hashlib.sha256(rr.out).hexdigest() != gentree.spec_sha(tree[p].data):
                    oc.violate("dedup:content-differs:cat", "%r rc=%d" % (p, rr.rc))
    except Exception:
        oc.inconclusive.append("harness exception: %s" % traceback.format_exc()[-800:])
    return oc


def main(tier):
    rep = core.Report(PROP, tier, "exploration",
                      "each evaluation = one packing run (gensquashfs or tar2sqfs, ASan build) of a workload with many distinct equal-size incompressible blocks, block runs from a small pool, "
                      "equal-size tails and true duplicates, with xxh32 masked to 2/4/8 bits by a link-time wrapper, across compressors, block sizes, -j and -Q; oracles: content sha256 of every file "
                      "(independent parser, rdsquashfs -c), on-disk validator, identical files share storage, and the hook log shows a byte compare with outcome equal before every share; "
                      "distinct = (bits, compressor, block size, j, Q, tool)")
    build.build("asan")
    n = 60 if tier == "quick" else 1200
    for oc in core.pmap(run_case, [(i, tier) for i in range(n)]):
        rep.add(oc)
    sites = {"in-flight": rep.counters.get("fragcmp_src0_different", 0), "current": rep.counters.get("fragcmp_src1_different", 0),
             "re-read": rep.counters.get("fragcmp_src2_different", 0), "file-range": rep.counters.get("blkcmp_different", 0)}
    rep.extra["byte_compares_with_outcome_different_by_site"] = sites
    rep.extra["inconclusive_sites"] = [k for k, v in sites.items() if v == 0]
    rep.required_nonzero = ["files_compared", "frag_shares", "block_run_shares", "fragcmp_src1_different", "fragcmp_src2_different", "blkcmp_different", "duplicate_groups"]
    return rep.finish()
