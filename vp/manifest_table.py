chk("C01", "exploration",
    "Generated trees (boundary pools from the quantifier) x gensquashfs configurations are packed by the ASan+UBSan build; "
    "every image is decoded by an independent parser and through rdsquashfs stat/cat/xattr/list/unpack and compared field by field "
    "with the expected tree; unrepresentable inputs must be refused without output.",
    "Trusted: vp/sqfsimg.py (independent reader), the expectation rules in DESIGN.md Appendix A, sandbox file-system semantics. "
    "Covers only the generated inputs/configurations.",
    "differential decode of real tool output under ASan/UBSan", "3/C01")
chk("C03", "exploration",
    "Every image written by the ASan build of gensquashfs for layout-focused and random trees x configurations is parsed by the independent "
    "reader and checked against the rule list of DESIGN.md 3/C03 (superblock/layout consistency, block size bounds, directory header/index rules, "
    "inode numbering, link counts, table references); evidence counts evaluations per rule.",
    "Trusted: vp/sqfsimg.py and its reading of doc/format.adoc. Rules deliberately exclude what the statement does not ask for "
    "(directory nlink values, inode order, optional indexes).",
    "independent validator over real tool output", "3/C03")
chk("C18", "exploration",
    "canonicalize_name / is_filename_sane are run on every string over {'/','.','a','b',0xC3} up to length 10 (quick) / 12 (thorough) and on seeded "
    "random strings up to 4096 bytes, each in an exactly sized heap buffer under ASan+UBSan, and compared with an independent specification "
    "(result, return value, no growth, idempotence, sanity equivalence). The enumeration is complete for the stated alphabet and length. Tool level: 19 spellings of a path "
    "(leading/trailing/repeated slashes, './' and '/./' components, '..' in every position) are given to rdsquashfs -s/-c/-l, sqfs2tar -d/-r, tar2sqfs -r and written as plain and quoted sort file names; "
    "each must give exactly the result of the canonical spelling and a spelling with a '..' component must be refused.",
    "Trusted: the specification function in harness/canon_enum.c (and its Python twin for the tool level); ASan red zones for out-of-string accesses.",
    "exhaustive enumeration against executable spec under ASan", "3/C18")
chk("C02", "exploration",
    "Inputs built to make completion order differ from submission order are packed by gensquashfs and tar2sqfs under many -j/-Q values, seeded delays "
    "between the pool's critical sections, spurious wake-ups and process environments; every image must equal the NO_THREAD_IMPL serial build's bytes. "
    "The hook log of every run is checked offline for the ordering invariants (tickets released in submission order, I/O sequence written gap-free by the "
    "submitting thread, a file's blocks contiguous, fragment-block sequence fixed at overflow); a ThreadSanitizer build runs the same inputs; thorough adds valgrind memcheck "
    "for uninitialised bytes reaching pwrite. Evidence reports the completion-order inversions actually observed.",
    "Observed schedules only (no enumeration of the tools' interleavings; the pool itself is enumerated in C09). TSan cannot see inside the compressor libraries.",
    "differential bytes + offline trace checker over hook log + ThreadSanitizer", "3/C02")
chk("C11", "exploration",
    "The real gensquashfs (instrumented build) packs each generated directory tree under identity, reverse, sorted, reverse-sorted and seeded-shuffle readdir orders "
    "injected by a link-time readdir wrapper, for pack-dir and glob inputs and the -k/-x/-H/-o variants; all images of one variant must be byte identical, "
    "and the wrapper log must show that different orders were actually delivered.",
    "Orders are injected at the readdir call of project code; trees are generated (incl. multiply-linked files in and across directories).",
    "differential bytes under injected readdir permutations", "3/C11")
chk("C12", "exploration",
    "gensquashfs, tar2sqfs (stdin fed in chunks of 1..65536 bytes, plain and gzip/xz/zstd/bzip2 archives with one-byte reads at the format probe), rdsquashfs and sqfs2tar on an image cut short, sqfs2tar (plain and -c gzip/xz/zstd/bzip2 to a pipe), rdsquashfs cat/unpack and sqfsdiff "
    "are each run clean and then under seeded schedules of short counts (down to 1 byte) and EINTR runs injected at every read/write/pread/pwrite call of project code; "
    "exit status and output sha256 (image / stdout / unpacked tree) must equal the clean run. The wrapper log proves the injections fired.",
    "Injection at the project's own call sites (link-time wrap); libc-internal I/O (stdio messages) is not perturbed. Observed schedules only.",
    "differential outputs under injected short I/O and EINTR", "3/C12")
chk("C13", "fault_enumeration",
    "For two small inputs (thorough: plus two medium ones) x 19 tool scenarios (gensquashfs pack-file/pack-dir/xattr-file and a pack-dir run with a weakened block checksum so that colliding fragments are compared through read-back, tar2sqfs plain and gzip stdin, sqfs2tar plain/gzip/zstd/xz, rdsquashfs cat/stat/list/xattr/describe/unpack) "
    "a counting run records the number of calls per class; then one ASan run per (class, k, kind): k-th read/write/pread/pwrite/ftruncate/open/fsync/readdir failing with EIO/ENOSPC/EACCES "
    "(also EINTR-then-error and persistent errors) and the k-th allocation by project code returning NULL. Oracle: no sanitizer report or signal; exit != 0 implies a diagnostic and (packers) no output file; "
    "exit 0 implies output identical to the fault-free run. Plus truncated tar streams (cut inside a member, and at every 512 byte boundary between the GNU L/K and PAX x records of one member) and truncated images.",
    "Single fault per run, -j 1; allocation faults only for allocations made by project code (link-time wrap), not inside libc/zlib/xz/zstd.",
    "exhaustive single-fault injection via link-time wrappers under ASan", "3/C13")
chk("C14", "fault_enumeration",
    "For each generated input and both packers the number K of output-file operations is measured and the packer is killed (SIGKILL, injected in the pwrite/ftruncate wrappers) "
    "right before operation k for every k in 1..K (thorough: also half-way through each pwrite). The file left behind must be rejected by rdsquashfs -d, rdsquashfs -l / and sqfs2tar, "
    "or accepted by all three with byte-identical output and an identical decoded tree (independent parser) to the completed image.",
    "Crash model: process death between two output system calls with the page cache intact; padding after bytes_used is not compared.",
    "exhaustive crash-point injection at output system calls", "3/C14")
chk("C09", "exploration",
    "The unmodified thread pool source is compiled against a cooperative scheduler (rt/vsched.c) that turns every pthread mutex/cond/create/join call into a scheduling point: "
    "complete enumeration for W=1,N=1 (all failure positions and client patterns, also with one spurious wake-up as an explicit choice), depth-first enumeration with preemption bound 2 (quick) / 3 (thorough) "
    "for W<=2 (3 in thorough), N<=3 (4), every failing-item position and five client patterns, random walks with spurious wake-ups up to W=3,N=5; online assertions at the client boundary and in the "
    "worker callback (exactly-once processing and hand-back, submission order, per-worker context exclusivity, every call returns, deadlock detector). The real block processor runs on the same "
    "controlled pool with a scripted compressor and a recording writer: results must equal the serial pool's and a failing compressor call must surface as an error. Real threads run under ThreadSanitizer.",
    "Scheduling granularity is the pthread call; hardware reorderings are covered only by TSan on observed runs. Only the smallest configuration is enumerated completely; "
    "the rest is bounded by preemptions or sampled.",
    "schedule enumeration of real code under a controlled scheduler + TSan stress", "3/C09")
chk("C08", "exploration",
    "gensquashfs and tar2sqfs (ASan build) pack workloads of many distinct equal-size incompressible blocks, block runs drawn from a small pool, equal-size tails and true duplicates while a link-time "
    "wrapper masks xxh32 to 2/4/8 bits, across compressors, block sizes, -j and -Q (so compared fragment blocks are current, in flight, or re-read from disk). Every file's content is checked through the "
    "independent parser and rdsquashfs -c, the image through the validator, identical files must share storage, and the hook log must show a byte compare with outcome 'equal' before every share. "
    "The evidence counts byte compares with outcome 'different' per site; a site with zero is reported as inconclusive.",
    "Collisions are forced by weakening the checksum, not found for the real 32-bit function; trusted: vp/sqfsimg.py.",
    "differential content + hook-log invariant under forced checksum collisions", "3/C08")
chk("C17", "exploration",
    "Each generated tree is packed by the ASan gensquashfs without and with a generated sort file (negative/tied/large priorities, exact and quoted names with escapes, glob and glob_no_path patterns, "
    "overlapping lines, flag subsets) under -T/-e/-b/-B. The independent parser's layout must follow an executable statement of the man page: first matching line wins, stable ascending priority order of data "
    "blocks and of tails relative to the default order, dont_compress/dont_fragment/nosparse/dont_deduplicate storage effects, -T only for files larger than one block, export table present and correct, "
    "and the tree and contents unchanged.",
    "The default order is read from the image packed without a sort file; only glob patterns with unambiguous meaning are generated; the interaction of dont_compress with a deduplicated tail is not judged.",
    "decoded-layout check against executable documentation semantics", "3/C17")
chk("C16", "exploration",
    "Every string up to length 2 (quick) / 3 (thorough) over {letter, space, tab, double quote, backslash, single quote, #, =, -, 0x80, 0xFF, CR} plus random longer ones is used as file, directory, symlink, "
    "device, fifo and socket name, as symlink target and as unpack-root name. I1 is packed from a real directory (so the pack-file parser under test only sees describe output); rdsquashfs -d (with and "
    "without -p, also with a hostile unpack-root name) and rdsquashfs -u produce the listing and files; gensquashfs -F rebuilds I2; the independent parser compares paths, types, permission bits, owners "
    "(including the root directory), symlink targets, device numbers and contents.",
    "Names are limited to what the host file system can hold (no '/', NUL, newline; <= 255 bytes). Timestamps and hard-link groups are not part of the statement and are not compared.",
    "round-trip differential through the real tools, exhaustive short strings", "3/C16")
chk("C04", "exploration",
    "An independent tar writer (vp/tarmodel.py) serialises generated trees in every supported dialect (v7, ustar with prefix, pre-POSIX, GNU long name/link, PAX path/linkpath/size/uid/gid/mtime, "
    "base-256 and negative/large numbers, old GNU/0.0/0.1/1.0 sparse maps with random hole layouts, SCHILY and LIBARCHIVE xattrs, hard links before/after their targets, implicit parents, './', '' and '/' prefixes). "
    "tar2sqfs (ASan) output is decoded by the independent parser and compared with the intended tree; sqfs2tar output is read by Python tarfile (binary-safe pax scan for xattrs) and must be accepted by GNU tar; "
    "image -> tar -> image must preserve the tree and hard-link groups and the second round trip must be byte identical (images and archives); sqfs2tar -r/-X/-L/-d variants and tar2sqfs --root-becomes (with and without -S: link retargeting incl. targets that only share a string prefix with the root name, hard link groups, root attributes) are checked against "
    "exact expectations; images with socket inodes from the independent writer must lose exactly the sockets.",
    "Trusted: vp/tarmodel.py, Python tarfile, GNU tar, vp/sqfsimg.py. One open finding is matched by key (xattr order flips on each round trip).",
    "differential conversion against independent tar and SquashFS models", "3/C04")
chk("C15", "exploration",
    "Generated archives are wrapped by reference codecs (Python zlib/lzma/bz2 and libzstd via ctypes) at several levels as single streams, 2-4 concatenated members split at arbitrary and 512-aligned offsets, "
    "gzip streams with sync-flush points and a first member shorter than the format probe, and piped into tar2sqfs (ASan) in chunks of 1..65536 bytes: the image must be identical to the uncompressed archive's. "
    "Negative inputs (truncation at random offsets, inside the trailer, at/after flush points and inside a second member; bit flips anywhere and in the last quarter; well-formed streams of a changed archive whose CRC field is damaged; "
    "archives whose end-of-archive marker ends at, before and after a multiple of the 256 KiB stream buffer; garbage and zero suffixes) must never give exit 0 with a different image "
    "(unless the reference decoder accepts the damaged stream too) and never hang. Reverse: sqfs2tar -c gzip/xz/zstd/bzip2 output decoded by the reference codec must equal plain sqfs2tar for tar streams "
    "sized around multiples of the 256 KiB wrapper buffer with incompressible content.",
    "Reference decoders are trusted; a stream whose only damage is undetectable by the reference decoder is not judged.",
    "differential against reference codecs, framing/chunking/negative sweeps", "3/C15")
chk("C05", "exploration",
    "Valid images are built by an independent writer with uncompressed metadata and a map of every on-disk field; each field (superblock, inode fields, directory headers/entries, table entries and locations, "
    "block size words, xattr fields, metadata block headers) is overwritten with 0, 1, max, +-1, sign bit, doubled and random values. Every mutant is walked in a forked child of an ASan+UBSan harness that drives "
    "libsquashfs the way the tools do (full hierarchy, stat, xattrs, stream / positional / per-block / fragment data access, recursive iterator with hard-link filter); a sample plus byte-mutated tool-written "
    "compressed images plus special images (directory loops, nested shared directory inodes up to depth 40, truncations, inode tables that end inside a record of every inode kind, valid images sweeping xattr lengths) go through "
    "rdsquashfs -d/-l/-s/-c/-x/-u, sqfs2tar (plain, gzip, --subdir) and sqfsdiff; the first 16 bytes of every compressed stream (metadata, data, fragment blocks) of tool-written images in all five compressors are mutated and walked. "
    "Oracle: no sanitizer report, signal, hang (no exit within 5x the watchdog on a solitary re-run) or resource blow-up; exit status is free.",
    "Quick samples one instance per field kind (off-by-one values always kept); thorough mutates every field. Compressed metadata is reached by byte and stream-header mutation only. ASan red zones miss far out-of-bounds accesses.",
    "structure-aware field mutation + ASan/UBSan walk harness and CLI replay", "3/C05")
chk("C10", "exploration",
    "For tool-written images in every compressor and for field-mutated writer images (including two block-carrying files that share a data location with their own, equal, bit-flipped and off-by-one size words) a catalogue of self-contained reader queries "
    "(inode by reference incl. references into the middle of records / beyond the block, directory listing, path resolution, positional read, block, fragment, stream, xattr set, id lookup, raw metadata "
    "seek+read; valid and invalid arguments) is answered once by freshly created readers per query. Histories of queries (random, failing queries in between, repeats, same/neighbouring metadata blocks) then run "
    "on one long-lived set of reader objects in an ASan harness; every (status, payload hash) must equal the fresh answer. A mismatch is minimised to the shortest failing history. The hook log counts cache "
    "hits/misses so the evidence shows the caches were exercised; the stream, positional and per-block APIs are compared on every tool-written file (files with holes included), and a file stream that reported an error "
    "must not hand out data on the next call.",
    "The DOT_ENTRIES directory cache is documented as stateful and not used; cursor APIs are exercised as seek+read pairs. Histories are sampled, not enumerated.",
    "history replay against fresh-object reference answers (shadow oracle)", "3/C10")
chk("C06", "exploration",
    "Hostile images are built by the independent writer: directory tables with arbitrary name bytes ('.', '..', NUL, '/', absolute and '../' names, trailing '/'), duplicate names combining symlink+directory, "
    "symlink+file, file+file and dir+dir, unsorted entries, symlinks to victims (relative, absolute, '..', '.', '/'), nested hostile names, devices and fifos. Each is unpacked by the ASan rdsquashfs with ten "
    "option sets (-C -O -T -X -Z -q -E -D -S -F -L) and several unpack paths into J/R inside a jail that also holds victim files with distinctive owners, modes, times and xattrs and the image itself; a recursive "
    "snapshot (type, mode, owner, size, mtime_ns, xattrs, sha256 or link target) of everything outside R must be identical before and after. With exit 0 the sanely named entries must be present with the right "
    "content and skipped hostile names must be reported.",
    "Before/after observation of the file system plus, for one unpack per image, a system call path audit under strace (paths of modifying calls after the chdir into R: relative, no '..', "
    "not through and not following a symlink the run created; failed attempts count). Runs as root on tmpfs.",
    "before/after jail snapshot + strace path audit around the real unpacker on hostile images", "3/C06")
chk("C19", "exploration",
    "For each of the copyable kinds (gzip/xz/lzma/lz4/zstd compressors in both directions, fragment table, id table, metadata, directory, data and xattr readers, read-only file, xattr writer) an ASan+LSan "
    "harness builds three identically constructed objects (compressors with seeded non-default options; half of their histories contain read_options() of in-range, out-of-range and malformed option blocks and write_options()) with the same seeded pre-history; in a third of the histories every allocation inside sqfs_copy(O1) is first made to fail once "
    "and O1 must keep answering like its twin; then C = sqfs_copy(O1) (every third history also a copy of the copy), and C and O1 are driven with different interleaved "
    "seeded operation sequences: C must answer every operation like the untouched twin O2 and O1 like the twin O3 (answers compared as hashes of status and payload; the xattr writer additionally by the bytes it "
    "flushes). Then O1 or C is released first (one process per order so a crash is attributable), the survivor is used again, and LeakSanitizer must be clean.",
    "Operation histories are sampled; equivalence is judged on the answers of the public API, not on internal state.",
    "twin-object differential histories under ASan/LSan", "3/C19")
chk("C07", "exploration",
    "Structured mutants of archives in every dialect (truncation at 512-byte boundaries and random offsets, every header field overwritten with hostile values with and without a repaired checksum, type flags, "
    "PAX record edits and sequences of sparse records inside one PAX header, old-GNU and 1.0 sparse-map edits, all hard-link graphs over 3 (quick) / 4 (thorough) names including cycles, self links, links to directories and missing names, GNU long-name records, "
    "damaged compressed wrappers, junk) are piped into the ASan+UBSan tar2sqfs; mutated pack, sort and xattr files (every hostile fragment as its own line and appended to lines, plus random edits, CRLF, NUL, "
    "very long lines, '..' paths, link cycles, quoted value escapes; a pack file named without a directory component and no pack dir) are given to gensquashfs; valid inputs without file content are packed "
    "without -q under compressor settings with and without an options block. Oracle: no sanitizer report, signal or hang (two-step watchdog); exit 0 requires an image that the independent parser decodes and "
    "validates; exit != 0 requires a diagnostic on stderr and no output file.",
    "Generated mutants only (libFuzzer targets from the design are not built). One open finding is matched by key (sparse member declaring a 2^62-byte size).",
    "structured mutation + ASan/UBSan CLI replay with image validation", "3/C07")
