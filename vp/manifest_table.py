chk("C01", "exploration",
    "Generated trees (boundary pools from the quantifier) x gensquashfs configurations are packed by the ASan+UBSan build; "
    "every image is decoded by an independent parser and through rdsquashfs stat/cat/xattr/list/unpack and compared field by field "
    "with the expected tree; unrepresentable inputs must be refused without output.",
    "Trusted: vp/sqfsimg.py (independent reader), the expectation rules in DESIGN.md Appendix A, sandbox file-system semantics. "
    "Covers only the generated inputs/configurations.",
    "differential decode of real tool output under ASan/UBSan", "3/C01")
