import json, sys, glob
import jsonschema
m = json.load(open('MANIFEST.json'))
jsonschema.validate(m, json.load(open('/root/.vp/MANIFEST.schema.json')))
es = json.load(open('/root/.vp/EVIDENCE.schema.json'))
for f in sorted(glob.glob('evidence/*.json')):
    jsonschema.validate(json.load(open(f)), es)
    print('ok', f)
print('manifest ok:', len(m['checks']), 'checks')
