"""C13 fail-stop: enumerate every single fault position (k-th call of each syscall class, k-th project allocation)
for small inputs on the asan build; sample for larger ones."""
import tarfile
import os, subprocess, hashlib, traceback, re
from . import core, build, gentree, views
from .gentree import Node

PROP = "C13"
ERRNO = {"EIO": 5, "ENOSPC": 28, "ENOMEM": 12, "EINTR": 4, "EACCES": 13}
SYS_CLASSES = ["read", "write", "pread", "pwrite", "trunc", "open", "fsync", "readdir"]
_sym_cache = {}


def symbolize(binary, addr):
    k = (binary, addr)
    if k not in _sym_cache:
        try:
            out = subprocess.run(["addr2line", "-f", "-e", binary, addr], capture_output=True, text=True, timeout=20).stdout.split("\n")
            _sym_cache[k] = out[0].strip() or "?"
        except Exception:
            _sym_cache[k] = "?"
    return _sym_cache[k]


def small_tree(idx):
    bs = 4096
    if idx == 0:
        t = {b"": Node("dir", 0o755), b"dir": Node("dir", 0o750, uid=1, gid=2),
             b"dir/file": Node("file", 0o644, data=[("rand", 1, 5000)], xattrs={b"user.a": b"b", b"user.b": b"second", b"user.c": b"third"}),
             # a hard link whose own path and whose target path both need a long-name record in a tar archive
             b"L" * 100: Node("dir", 0o755), b"L" * 100 + b"/target-of-the-link": Node("file", 0o644, data=[("bytes", b"linked")]),
             b"L" * 100 + b"/zz-link": Node("file", link_to=b"L" * 100 + b"/target-of-the-link"),
             b"dir/sparse": Node("file", 0o600, data=[("zero", 4096), ("bytes", b"tail")]),
             b"dir/dup": Node("file", 0o644, data=[("rand", 1, 5000)]),
             b"lnk": Node("slink", 0o777, target=b"dir/file"), b"dev": Node("cdev", 0o600, dev=(1, 3)),
             b"hl": Node("file", link_to=b"dir/file"), b"empty": Node("file", 0o644, data=[])}
    elif idx == 2:
        # medium: several metadata blocks worth of inodes and directory entries, many distinct xattr sets, several fragment blocks
        t = {b"": Node("dir", 0o755)}
        for d in range(4):
            t[b"d%d" % d] = Node("dir", 0o755, xattrs={b"user.dir": b"%d" % d})
            for i in range(90):
                t[b"d%d/file-with-a-longer-name-%03d" % (d, i)] = Node("file", 0o644, uid=i % 7, gid=d, data=[("rand", d * 100 + i, 300 + 37 * i)],
                                                                  xattrs={b"user.n": b"%d" % (d * 100 + i)} if i % 3 == 0 else {})
        t[b"big"] = Node("file", 0o644, data=[("rep", b"abc", 9 * bs + 5)])
        t[b"holes"] = Node("file", 0o644, data=[("zero", 2 * bs), ("rand", 5, bs), ("zero", bs), ("bytes", b"end")])
        t[b"hl"] = Node("file", link_to=b"big")
        t[b"zdup"] = Node("file", 0o644, data=[("rand", 0, 300)])      # same content as d0/file-...-000
        t[b"lnk"] = Node("slink", 0o777, target=b"d0")
        t[b"dev"] = Node("bdev", 0o600, dev=(8, 1))
    elif idx == 3:
        import random
        for seed in range(13, 200):
            t, _ = gentree.gen_tree(random.Random(seed), bs=bs, max_entries=80)
            if len(t) >= 50:
                break
        for n in t.values():
            if n.uid == 0xFFFFFFFF:
                n.uid = 1
            if n.gid == 0xFFFFFFFF:
                n.gid = 1
        t = {p: n for p, n in t.items() if b"\n" not in p and not (n.target and b"\n" in n.target)}
        t = {p: n for p, n in t.items() if all(q in t for q in gentree.parents(p)) and (n.link_to is None or n.link_to in t)}
        t[b"big"] = Node("file", 0o644, data=[("rep", b"xyz", 3 * bs + 1)])
    else:
        t = {b"": Node("dir", 0o755)}
        for i in range(12):
            t[b"f%02d" % i] = Node("file", 0o644, data=[("rand", i, 900 + 700 * i)])
        t[b"big"] = Node("file", 0o644, data=[("rep", b"abc", 3 * bs + 5)])
        t[b"zt"] = Node("file", 0o644, data=[("zero", 100)])
        # duplicates of tail ends whose fragment block is already on disk when they arrive (read back through pread)
        # same-size tail ends with different content spread over several fragment blocks: with a weak checksum (scenario
        # gensquashfs-weak-hash) they collide and are compared byte by byte against blocks read back from the image
        for i in (1, 3, 5, 7, 9, 11):
            t[b"f%02ds" % i] = Node("file", 0o644, data=[("rand", 100 + i, 500)])
        t[b"zdup0"] = Node("file", 0o644, data=[("rand", 0, 900)])
        t[b"zdup1"] = Node("file", 0o644, data=[("rand", 1, 1600)])
    return t


class Scenario:
    """name, tool, argv builder, stdin, output kind ('file' packer output, 'stdout', 'tree')."""

    def __init__(self, name, tool, args, stdin=None, outkind="file", outpath=None, packer=False, env=None):
        self.name, self.tool, self.args, self.stdin, self.outkind, self.outpath, self.packer = name, tool, args, stdin, outkind, outpath, packer
        self.env = env or {}


def result_of(sc, res, work):
    if sc.outkind == "file":
        return core.sha_file(sc.outpath) if os.path.exists(sc.outpath) else None
    if sc.outkind == "stdout":
        return hashlib.sha256(res.out).hexdigest()
    if sc.outkind == "tree":
        snap = views.snapshot_dir(sc.outpath)
        return hashlib.sha256(repr(sorted((p, e.get("type"), e.get("sha256"), e.get("target")) for p, e in snap.items())).encode()).hexdigest()


def run_one(binaries, sc, work, env):
    if sc.outkind == "file" and os.path.exists(sc.outpath):
        os.unlink(sc.outpath)
    if sc.outkind == "tree":
        views.force_rmtree(sc.outpath)
        os.makedirs(sc.outpath)
    res = core.run_tool([binaries[sc.tool]] + sc.args, env=dict(sc.env, **env), stdin=sc.stdin, timeout=60, cwd=work)
    return res


def scenarios_for(binaries, work, idx, tier):
    tree = small_tree(idx)
    root = os.path.join(work, "in")
    gentree.materialise_dir(tree, root)
    fdir = os.path.join(work, "files")
    os.makedirs(fdir)
    locs = {}
    i = 0
    for p, n in tree.items():
        if n.type == "file" and n.link_to is None:
            nm = b"f%03d" % i
            i += 1
            gentree.write_spec(os.path.join(os.fsencode(fdir), nm), n.data or [])
            locs[p] = nm
    pf = os.path.join(work, "pack.txt")
    with open(pf, "wb") as f:
        f.write(gentree.pack_file_lines(tree, locs))
    sortf = os.path.join(work, "sort.txt")
    with open(sortf, "w") as f:
        f.write("-5 [glob] *\n10 big\n")
    tarf = os.path.join(work, "in.tar")
    subprocess.run(["/usr/bin/tar", "--sort=name", "--numeric-owner", "--xattrs", "-cf", tarf, "-C", root, "."], check=True, stderr=subprocess.DEVNULL)
    tardata = open(tarf, "rb").read()
    img = os.path.join(work, "ref.sqfs")
    r = core.run_tool([binaries["gensquashfs"], "-c", "gzip", "-b", "4096", "-q", "-f", "-D", root, "-x", "-e", img], timeout=60)
    assert r.rc == 0, r.err
    out = os.path.join(work, "out.sqfs")
    xf = os.path.join(work, "xattr.txt")
    with open(xf, "wb") as f:
        f.write(gentree.xattr_file(tree))
    img2 = os.path.join(work, "ref2.sqfs")
    r = core.run_tool([binaries["gensquashfs"], "-c", "xz", "-b", "8192", "-q", "-f", "-D", root, img2], timeout=60)
    assert r.rc == 0, r.err
    comp = ["gzip", "xz"][idx % 2]
    S = [
        Scenario("gensquashfs-packfile", "gensquashfs", ["-c", comp, "-b", "4096", "-q", "-j", "1", "-e", "-F", pf, "-D", fdir, "-S", sortf, out], outpath=out, packer=True),
        Scenario("gensquashfs-packdir", "gensquashfs", ["-b", "4096", "-q", "-j", "1", "-D", root, "-x", "-k", out], outpath=out, packer=True),
        Scenario("gensquashfs-packdir-relative", "gensquashfs", ["-c", "gzip", "-b", "4096", "-q", "-j", "1", "-D", "in", "out.sqfs"], outpath=out, packer=True),
        Scenario("tar2sqfs-relative", "tar2sqfs", ["-c", "gzip", "-q", "-j", "1", "out.sqfs"], stdin=tardata, outpath=out, packer=True),
        Scenario("tar2sqfs", "tar2sqfs", ["-c", comp, "-b", "4096", "-q", "-j", "1", out], stdin=tardata, outpath=out, packer=True),
        Scenario("sqfs2tar", "sqfs2tar", [img], outkind="stdout"),
        Scenario("sqfs2tar-gzip", "sqfs2tar", ["-c", "gzip", img], outkind="stdout"),
        Scenario("rdsquashfs-cat", "rdsquashfs", ["-c", "/dir/file" if idx == 0 else "/big", img], outkind="stdout"),
        Scenario("rdsquashfs-unpack", "rdsquashfs", ["-u", "/", "-p", os.path.join(work, "unp"), "-q", img], outkind="tree", outpath=os.path.join(work, "unp")),
        Scenario("rdsquashfs-describe", "rdsquashfs", ["-d", img], outkind="stdout"),
        Scenario("rdsquashfs-stat", "rdsquashfs", ["-s", "/dir/file" if idx == 0 else "/big", img], outkind="stdout"),
        Scenario("rdsquashfs-list", "rdsquashfs", ["-l", "/", img], outkind="stdout"),
        Scenario("rdsquashfs-xattr", "rdsquashfs", ["-x", "/dir/file" if idx == 0 else "/big", img], outkind="stdout"),
        Scenario("sqfs2tar-zstd", "sqfs2tar", ["-c", "zstd", img], outkind="stdout"),
        Scenario("sqfs2tar-xz-subdir", "sqfs2tar", ["-c", "xz", "-d", "dir", img] if idx == 0 else ["-c", "xz", "--no-xattr", img], outkind="stdout"),
        Scenario("tar2sqfs-gz", "tar2sqfs", ["-c", "zstd", "-b", "8192", "-q", "-j", "1", "-x", "-s", out], stdin=__import__("gzip").compress(tardata, mtime=0), outpath=out, packer=True),
        Scenario("gensquashfs-xattrfile", "gensquashfs", ["-c", "lz4", "-b", "4096", "-q", "-j", "1", "-F", pf, "-D", fdir, "-A", xf, "-T", out], outpath=out, packer=True),
        Scenario("gensquashfs-weak-hash", "gensquashfs", ["-c", "gzip", "-b", "4096", "-q", "-j", "1", "-D", root, out], outpath=out, packer=True, env={"VERIF_HASH_BITS": "1"}),
        Scenario("rdsquashfs-unpack-attrs", "rdsquashfs", ["-u", "/", "-p", os.path.join(work, "unp"), "-q", "-C", "-O", "-T", "-X", img], outkind="tree", outpath=os.path.join(work, "unp")),
    ]
    return S


def run_scenario(arg):
    idx, sci, tier = arg[:3]
    part, nparts = arg[3:] if len(arg) > 3 else (0, 1)
    oc = core.Outcome("in%d-sc%d" % (idx, sci))
    try:
        B = build.build("asan")
        with core.Scratch("c13") as work:
            S = scenarios_for(B, work, idx, tier)
            sc = S[sci]
            oc.case_id = "in%d-%s" % (idx, sc.name)
            cnt = os.path.join(work, "cnt")
            res = run_one(B, sc, work, {"VERIF_COUNT": cnt})
            if res.rc != 0 or res.san:
                oc.inconclusive.append("fault-free run failed rc=%s %s" % (res.rc, res.err[-200:]))
                return oc
            ref = result_of(sc, res, work)
            ref_err = set(l.strip() for l in res.err.split(b"\n"))      # warnings that the fault-free run prints as well are not a diagnostic of the fault
            counts = {}
            for l in open(cnt):
                k, v = l.split()
                counts[k] = int(v)
            plan = []
            for cls in SYS_CLASSES:
                n = counts.get(cls, 0)
                ks = list(range(1, n + 1))
                if tier == "quick" and n > 60:
                    ks = ks[:40] + ks[40::max(1, (n - 40) // 20)]
                elif idx >= 2 and n > 400:
                    ks = ks[:200] + ks[200::max(1, (n - 200) // 200)]
                for k in ks:
                    kinds = [("EIO", 0, 0)]
                    if cls in ("write", "pwrite", "trunc", "fsync"):
                        kinds = [("ENOSPC", 0, 0), ("EIO", 1, 0)]
                    if cls in ("read", "pread"):
                        kinds = [("EIO", 0, 0), ("EIO", 0, 1)]
                    if cls == "open":
                        kinds = [("EACCES", 0, 0)]
                    for en, sticky, eintr in kinds:
                        plan.append((cls, k, en, sticky, eintr))
            n = counts.get("alloc", 0)
            ks = list(range(1, n + 1))
            if tier == "quick" and n > 400:
                ks = ks[:300] + ks[300::max(1, (n - 300) // 100)]
            elif idx >= 2 and n > 1200:
                ks = ks[:300] + ks[300::max(1, (n - 300) // 900)]
            for k in ks:
                plan.append(("alloc", k, "ENOMEM", 0, 0))
            exhaustive = all(counts.get(c, 0) <= 60 for c in SYS_CLASSES) and counts.get("alloc", 0) <= 400 or (tier == "thorough" and idx < 2)
            plan = plan[part::nparts]
            oc.inc("positions_planned", len(plan))
            oc.counters["exhaustive_scenarios"] = 1 if exhaustive and part == 0 else 0
            callerf = os.path.join(work, "caller")
            sites = set()
            for cls, k, en, sticky, eintr in plan:
                if os.path.exists(callerf):
                    os.unlink(callerf)
                env = {"VERIF_FAULT": "class=%s,k=%d,errno=%d,sticky=%d,eintr=%d" % (cls, k, ERRNO[en], sticky, eintr),
                       "VERIF_COUNT": cnt, "VERIF_FAULT_CALLER": callerf}
                res = run_one(B, sc, work, env)
                fired = False
                try:
                    fired = "fault_fired 1" in open(cnt).read()
                except OSError:
                    fired = res.rc != 0   # process died before writing the counters
                site = "?"
                if os.path.exists(callerf):
                    site = symbolize(B[sc.tool], open(callerf).read().strip())
                    fired = True
                if not fired:
                    oc.inc("not_reached")
                    continue
                oc.inc("faults_fired")
                oc.inc("faults_" + cls)
                sites.add((cls, site))
                where = "%s:%s@%s" % (sc.name, cls, site)
                detail = "input %d, %s k=%d errno=%s sticky=%d eintr-first=%d; exit %s; stderr %r" % (idx, cls, k, en, sticky, eintr, res.rc, res.err[-160:])
                if res.san:
                    oc.violate("%s:crash:%s" % (where, res.san.split(":", 1)[1]), detail, {"stderr.txt": res.err})
                    continue
                if res.hang:
                    oc.violate("%s:hang" % where, detail)
                    continue
                if res.rc != 0:
                    oc.inc("reported")
                    if not [l for l in res.err.split(b"\n") if l.strip() and l.strip() not in ref_err]:
                        oc.violate("%s:silent-failure" % where, detail)
                    if sc.packer and os.path.exists(sc.outpath):
                        oc.violate("%s:output-left-behind" % where, detail)
                else:
                    got = result_of(sc, res, work)
                    if got != ref:
                        oc.violate("%s:exit0-different-output" % where, detail)
                    else:
                        oc.inc("absorbed")
            oc.inc("distinct_call_sites", len(sites))
            oc.features = (idx, sc.name)
            oc.sample = {"scenario": sc.name, "input": idx, "calls": {k: v for k, v in counts.items() if v}, "positions": len(plan),
                         "sites": sorted("%s@%s" % s for s in sites)[:12]}
    except Exception:
        oc.inconclusive.append("harness exception: %s" % traceback.format_exc()[-800:])
    return oc


def stdout_case(arg):
    """Output written through stdio (listing, stat, xattr dump, describe; cat and sqfs2tar for comparison) to a destination that
    fails: /dev/full (every write fails with ENOSPC) and, under strace, the k-th write system call of the process failing.
    The link-time wrappers do not see writes that libc issues itself, so this is injected at the system call level."""
    idx, tier = arg
    oc = core.Outcome("stdout-%d" % idx, features=("stdout", idx))
    try:
        B = build.build("plain")
        with core.Scratch("c13o") as work:
            S = scenarios_for(build.build("asan"), work, idx, tier)
            for sc in [x for x in S if x.outkind == "stdout"]:
                argv = [B[sc.tool]] + sc.args
                ref = subprocess.run(argv, stdout=subprocess.PIPE, stderr=subprocess.PIPE, cwd=work)
                if ref.returncode != 0:
                    continue
                with open("/dev/full", "wb") as full:
                    r = subprocess.run(argv, stdout=full, stderr=subprocess.PIPE, cwd=work, timeout=120)
                oc.inc("dev_full_runs")
                if ref.stdout and r.returncode == 0:
                    oc.violate("%s:stdout-enospc:exit0-output-lost" % sc.name, "stdout is /dev/full: exit 0 although %d bytes of output could not be written" % len(ref.stdout))
                elif ref.stdout and not r.stderr.strip():
                    oc.violate("%s:stdout-enospc:silent-failure" % sc.name, "exit %d without a message" % r.returncode)
                # k-th write system call fails
                cnt = subprocess.run(["strace", "-f", "-e", "trace=write", "-o", os.path.join(work, "w.log")] + argv, stdout=subprocess.PIPE, stderr=subprocess.PIPE, cwd=work)
                try:
                    nw = sum(1 for l in open(os.path.join(work, "w.log")) if " write(" in l or l.startswith("write("))
                except OSError:
                    nw = 0
                for k in range(1, min(nw, 12 if tier == "quick" else 60) + 1):
                    r = subprocess.run(["strace", "-f", "-o", "/dev/null", "-e", "trace=write", "-e", "inject=write:error=EIO:when=%d" % k] + argv,
                                       stdout=subprocess.PIPE, stderr=subprocess.PIPE, cwd=work, timeout=120)
                    oc.inc("syscall_write_faults")
                    if r.returncode == 0 and r.stdout != ref.stdout:
                        oc.violate("%s:stdout-eio:exit0-different-output" % sc.name, "write system call #%d of %d fails with EIO: exit 0, %d of %d bytes arrived" % (k, nw, len(r.stdout), len(ref.stdout)))
                    elif r.returncode != 0 and not r.stderr.strip() and k < nw:
                        oc.violate("%s:stdout-eio:silent-failure" % sc.name, "write system call #%d fails: exit %d without a message" % (k, r.returncode))
            oc.sample = {"input": idx, "dev_full_runs": oc.counters.get("dev_full_runs"), "syscall_write_faults": oc.counters.get("syscall_write_faults")}
    except Exception:
        oc.inconclusive.append("harness exception: %s" % traceback.format_exc()[-800:])
    return oc


def ext_record_archive(fmt, r):
    """A small archive in which members are preceded by extension records: long names and long link targets (GNU 'L'/'K', PAX 'x'),
    a symbolic and a hard link with both, a file with data behind its records."""
    import io
    buf = io.BytesIO()
    with tarfile.open(fileobj=buf, mode="w", format=fmt) as tf:
        def add(name, typ=tarfile.REGTYPE, data=b"", link="", pax=None):
            ti = tarfile.TarInfo(name)
            ti.type, ti.size, ti.linkname, ti.mode, ti.mtime = typ, len(data), link, 0o644, 1000000000
            if pax:
                ti.pax_headers = pax
            tf.addfile(ti, io.BytesIO(data))
        d = "d" * 40
        long_file = "/".join([d, "n" * 70, "f" * 60])
        add(d, tarfile.DIRTYPE)
        add(d + "/" + "n" * 70, tarfile.DIRTYPE)
        add("plain", data=b"p" * 700)
        add(long_file, data=bytes(r.getrandbits(8) for _ in range(1500)))
        add("sl-long-target", tarfile.SYMTYPE, link="t" * 150)
        add(d + "/" + "s" * 120, tarfile.SYMTYPE, link="../" + "u" * 130)
        add(d + "/" + "h" * 110, tarfile.LNKTYPE, link=long_file)
        add("with-records", data=b"w" * 513, pax={"SCHILY.xattr.user.k": "v" * 40} if fmt == tarfile.PAX_FORMAT else None)
        add("last", data=b"l" * 10)
    return buf.getvalue()


def trunc_case(arg):
    """Truncated framed input: tar cut inside an entry must be refused; truncated image must not give different output with exit 0."""
    idx, tier = arg
    oc = core.Outcome("trunc-%d" % idx, features=("trunc", idx))
    try:
        B = build.build("asan")
        r = core.rng_for(PROP, "trunc", idx)
        with core.Scratch("c13t") as work:
            S = scenarios_for(B, work, idx % 2, tier)
            byname = {x.name: x for x in S}
            t2s = byname["tar2sqfs"]
            tardata = t2s.stdin
            # offsets inside a member (header or data), never at a member boundary: walk the headers
            inside = []
            pos = 0
            while pos + 512 <= len(tardata) and tardata[pos:pos + 512] != bytes(512):
                size = int(tardata[pos + 124:pos + 135].strip(b"\0 ") or b"0", 8) if tardata[pos + 124] < 0x80 else 0
                dlen = (size + 511) // 512 * 512
                inside.append(pos + r.randrange(1, 512))
                if dlen:
                    inside.append(pos + 512 + r.randrange(0, max(1, size)))
                pos += 512 + dlen
            # cuts inside the zero padding that follows member data, and inside members that tar2sqfs skips (-r / -E)
            pad_cuts, first_data = [], None
            pos = 0
            while pos + 512 <= len(tardata) and tardata[pos:pos + 512] != bytes(512):
                size = int(tardata[pos + 124:pos + 135].strip(b"\0 ") or b"0", 8) if tardata[pos + 124] < 0x80 else 0
                dlen = (size + 511) // 512 * 512
                if size % 512:
                    pad_cuts.append(pos + 512 + size + r.randrange(0, 512 - size % 512))
                if size and first_data is None and tardata[pos + 156:pos + 157] in (b"0", b"\0"):
                    first_data = (pos, size, tardata[pos:pos + 100].split(b"\0")[0])
                pos += 512 + dlen
            variants = [(off, t2s.args, "padding") for off in pad_cuts[:10 if tier == "quick" else 100]]
            if first_data:
                fpos, fsize, fname = first_data
                cut = fpos + 512 + max(1, fsize // 2)
                variants.append((cut, ["-E", fname.decode("latin1")] + t2s.args, "excluded-member"))
                variants.append((cut, ["-r", "no-such-root-dir"] + t2s.args, "outside-new-root"))
            variants = [(off, targs, what, tardata) for off, targs, what in variants]
            # archives whose members carry extension records (GNU 'L' / 'K', PAX 'x'): cut exactly at the record boundaries
            # between the first record of a member and the end of its data - the archive ends in the middle of a member although
            # the reader stands at a header position
            for fmt, fname in ((tarfile.GNU_FORMAT, "gnu"), (tarfile.PAX_FORMAT, "pax")):
                xt = ext_record_archive(fmt, r)
                pos, chain = 0, False
                cuts = []
                while pos + 512 <= len(xt) and xt[pos:pos + 512] != bytes(512):
                    size = int(xt[pos + 124:pos + 135].strip(b"\0 ") or b"0", 8)
                    dlen = (size + 511) // 512 * 512
                    ext = xt[pos + 156:pos + 157] in (b"x", b"L", b"K")
                    if chain:
                        cuts.append((pos, "before-" + ("record-" + xt[pos + 156:pos + 157].decode() if ext else "header-behind-records")))
                    if dlen:
                        cuts.append((pos + 512, "payload-of-" + xt[pos + 156:pos + 157].decode("latin1")))
                        if dlen > 512:
                            cuts.append((pos + 1024, "inside-payload-of-" + xt[pos + 156:pos + 157].decode("latin1")))
                    chain = ext
                    pos += 512 + dlen
                for ci, (off, what) in enumerate(cuts):
                    variants.append((off, t2s.args, "%s-%s" % (fname, what), xt))
                    oc.inc("record_boundary_cuts")
                    if ci % 3 == 0 and "tar2sqfs-gz" in byname:
                        # the same cut inside a complete gzip stream: the end of input is reported by the decompressing wrapper
                        variants.append((None, byname["tar2sqfs-gz"].args, "%s-%s-gzip" % (fname, what), __import__("gzip").compress(xt[:off], mtime=0)))
                        oc.inc("record_boundary_cuts_gzip")
            for off, targs, what, tdata in variants:
                sc = Scenario("tar2sqfs", "tar2sqfs", targs, stdin=tdata if off is None else tdata[:off], outpath=t2s.outpath, packer=True)
                res = run_one(B, sc, work, {})
                oc.inc("truncated_tar_runs")
                oc.inc("truncated_tar_" + what)
                if res.san:
                    oc.violate("tar2sqfs:truncated-input:crash:%s" % res.san, "cut at %s (%s)" % (off, what), {"stderr.txt": res.err})
                elif res.rc == 0:
                    oc.violate("tar2sqfs:truncated-input:accepted:%s" % what, "tar cut at byte %s of %d (inside %s) packed with exit 0" % (off, len(tdata), what))
                elif not res.err.strip():
                    oc.violate("tar2sqfs:truncated-input:silent-failure", "cut at %s (%s)" % (off, what))
            for off in inside[:40 if tier == "quick" else 400]:
                sc = Scenario("tar2sqfs", "tar2sqfs", t2s.args, stdin=tardata[:off], outpath=t2s.outpath, packer=True)
                res = run_one(B, sc, work, {})
                oc.inc("truncated_tar_runs")
                if res.san:
                    oc.violate("tar2sqfs:truncated-input:crash:%s" % res.san, "cut at %d" % off, {"stderr.txt": res.err})
                elif res.rc == 0:
                    oc.violate("tar2sqfs:truncated-input:accepted", "tar cut at byte %d of %d (inside a member) packed with exit 0" % (off, len(tardata)))
                else:
                    if not res.err.strip():
                        oc.violate("tar2sqfs:truncated-input:silent-failure", "cut at %d" % off)
                    if os.path.exists(sc.outpath):
                        oc.violate("tar2sqfs:truncated-input:output-left-behind", "cut at %d" % off)
            # truncated image for the readers
            img = os.path.join(work, "ref.sqfs")
            data = open(img, "rb").read()
            cut = os.path.join(work, "cut.sqfs")
            for scn in ("sqfs2tar", "rdsquashfs-cat", "rdsquashfs-describe"):
                sc0 = byname[scn]
                res0 = run_one(B, sc0, work, {})
                ref = result_of(sc0, res0, work)
                for _ in range(6 if tier == "quick" else 60):
                    off = r.randrange(96, len(data))
                    with open(cut, "wb") as f:
                        f.write(data[:off])
                    sc = Scenario(sc0.name, sc0.tool, [a if a != img else cut for a in sc0.args], outkind=sc0.outkind)
                    res = run_one(B, sc, work, {})
                    oc.inc("truncated_image_runs")
                    if res.san:
                        oc.violate("%s:truncated-image:crash:%s" % (sc.name, res.san), "cut at %d" % off, {"stderr.txt": res.err})
                    elif res.rc == 0 and result_of(sc, res, work) != ref:
                        oc.violate("%s:truncated-image:exit0-different-output" % sc.name, "image cut at %d of %d" % (off, len(data)))
                    elif res.rc != 0 and not res.err.strip():
                        oc.violate("%s:truncated-image:silent-failure" % sc.name, "cut at %d" % off)
            oc.sample = {"truncations": oc.counters}
    except Exception:
        oc.inconclusive.append("harness exception: %s" % traceback.format_exc()[-800:])
    return oc


def main(tier):
    rep = core.Report(PROP, tier, "fault_enumeration",
                      "for each (input, tool scenario) a counting run records how many calls of each class occur (read, write, pread, pwrite, ftruncate, open, fsync, readdir; "
                      "allocations made by project code); then one run per (class, k, kind) on the ASan build with exactly that fault injected at link-time wrappers. "
                      "quick enumerates every k for the two small inputs (sampling only beyond 60 syscalls / 400 allocations per class); thorough enumerates every k for the small inputs and adds two medium inputs (hundreds of inodes, several metadata and fragment blocks: every system call position up to 400 per class, the first 300 and ~900 evenly spread allocation positions); distinct = distinct (tool, class, failing call site)")
    build.build("asan")
    items = [(i, s, tier) for i in range(2) for s in range(19)]
    if tier != "quick":
        # the two medium inputs: positions of one scenario are spread over several workers
        items = [(i, s, tier, part, 4) for i in range(4) for s in range(19) for part in range(4)]
    if os.environ.get("VERIF_ONLY"):
        a, b = os.environ["VERIF_ONLY"].split(":")
        items = [(int(a), int(b), tier)]
    sites = 0
    exh = 0
    for oc in core.pmap(run_scenario, items):
        sites += oc.counters.pop("distinct_call_sites", 0)
        exh += oc.counters.pop("exhaustive_scenarios", 0)
        rep.add(oc)
    if not os.environ.get("VERIF_ONLY"):
        for oc in core.pmap(trunc_case, [(i, tier) for i in range(2 if tier == "quick" else 8)]):
            rep.add(oc)
        for oc in core.pmap(stdout_case, [(i, tier) for i in range(2)]):
            rep.add(oc)
    rep.extra["scenarios"] = len(set(x[:2] for x in items))
    rep.extra["scenarios_enumerated_exhaustively"] = exh
    rep.evaluations = rep.counters.get("faults_fired", 0) + rep.counters.get("truncated_tar_runs", 0) + rep.counters.get("truncated_image_runs", 0)
    rep.distinct_override = sites
    rep.exhaustive = (exh == len(set(x[:2] for x in items)))
    rep.required_nonzero = ["faults_fired", "reported", "faults_alloc", "faults_pwrite", "faults_read", "faults_write"]
    rep.assumptions = ["single fault per run; allocation faults cover allocations made by project code (libc/zlib internal allocations are not failed)",
                       "-j 1 so that the k-th call is deterministic"]
    return rep.finish()
