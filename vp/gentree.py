"""Abstract file-tree model, boundary-biased generator, and materialisers
(real directory, pack file, xattr file)."""
import os, random, hashlib, socket, stat, struct

U32 = 0xFFFFFFFF


# ------------------------------------------------------------------ content specs
# spec = list of segments: ("rand", seed, n) ("zero", n) ("bytes", b) ("rep", b, n)  [n bytes of repeating b]

def seg_len(s):
    k = s[0]
    if k in ("rand", "skew", "runs", "words"):
        return s[2]
    if k == "zero":
        return s[1]
    if k == "bytes":
        return len(s[1])
    if k == "rep":
        return s[2]
    raise ValueError(s)


def spec_len(spec):
    return sum(seg_len(s) for s in spec)


def seg_chunks(s, chunk=1 << 20):
    k = s[0]
    if k == "rand":
        r = random.Random(s[1])
        n = s[2]
        while n > 0:
            t = min(n, chunk)
            yield r.randbytes(t)
            n -= t
    elif k in ("skew", "runs", "words"):
        import math
        r = random.Random(s[1])
        n = s[2]
        out = bytearray()
        if k == "skew":
            w = [math.exp(-0.08 * i) for i in range(256)]
            out += bytes(r.choices(range(256), weights=w, k=n))
        elif k == "runs":
            while len(out) < n:
                out += bytes([r.getrandbits(8)]) * r.randint(1, 12)
        else:
            words = ["".join(r.choice("abcdefghijklmnopqrstuvwxyz") for _ in range(r.randint(2, 9))) for _ in range(200)]
            while len(out) < n:
                out += (" ".join(r.choices(words, k=200)) + " ").encode()
        yield bytes(out[:n])
    elif k == "zero":
        n = s[1]
        z = bytes(min(n, chunk))
        while n > 0:
            t = min(n, chunk)
            yield z[:t]
            n -= t
    elif k == "bytes":
        yield s[1]
    elif k == "rep":
        b, n = s[1], s[2]
        big = (b * (chunk // len(b) + 2))
        pos = 0
        while n > 0:
            t = min(n, chunk)
            off = pos % len(b)
            yield big[off:off + t]
            pos += t
            n -= t


def spec_chunks(spec):
    for s in spec:
        yield from seg_chunks(s)


def spec_bytes(spec):
    return b"".join(spec_chunks(spec))


_sha_cache = {}


def spec_sha(spec):
    key = repr(spec) if spec_len(spec) > 4096 else None
    if key and key in _sha_cache:
        return _sha_cache[key]
    h = hashlib.sha256()
    for c in spec_chunks(spec):
        h.update(c)
    d = h.hexdigest()
    if key:
        _sha_cache[key] = d
    return d


def write_spec(path, spec, sparse=True):
    with open(path, "wb") as f:
        for s in spec:
            if s[0] == "zero" and sparse and s[1] >= 4096:
                f.seek(s[1], 1)
            else:
                for c in seg_chunks(s):
                    f.write(c)
        f.truncate(spec_len(spec))


# ------------------------------------------------------------------ model

class Node:
    __slots__ = ("type", "mode", "uid", "gid", "mtime", "data", "target", "dev", "xattrs", "link_to")

    def __init__(self, type, mode=0o644, uid=0, gid=0, mtime=0, data=None, target=None, dev=None, xattrs=None, link_to=None):
        self.type = type      # dir file slink bdev cdev fifo sock
        self.mode = mode
        self.uid = uid
        self.gid = gid
        self.mtime = mtime
        self.data = data
        self.target = target
        self.dev = dev        # (major, minor)
        self.xattrs = xattrs or {}
        self.link_to = link_to   # path of the primary name (hard link), attributes come from there

    def copy(self):
        n = Node(self.type, self.mode, self.uid, self.gid, self.mtime, self.data, self.target, self.dev, dict(self.xattrs), self.link_to)
        return n


def parents(path):
    parts = path.split(b"/")
    for i in range(1, len(parts)):
        yield b"/".join(parts[:i])


def devno(maj, mi):
    # Linux new_encode_dev, which is what squashfs stores
    return (mi & 0xff) | (maj << 8) | ((mi & ~0xff) << 12)


def sort_paths(paths):
    return sorted(paths, key=lambda p: p.split(b"/"))


# ------------------------------------------------------------------ name pools

NAME_SPECIAL = [b"a b", b'q"uote', b"back\\slash", b"tab\there", b"#hash", b"-dash", b".hidden", b"'single'",
                b"\xff\xfe", b"\xc3\xa4\xc3\xb6", b"a=b", b"x*y", b"[br]", b"trail ", b" lead", b"\x01\x7f",
                b"\\", b'"', b"\\\\", b'\\"', b"..a", b"a..", b"...", b"$var", b"%s", b"a\rb"]


def rand_name(r, maxlen=40, special_p=0.25, alphabet=None):
    if r.random() < special_p:
        n = r.choice(NAME_SPECIAL)
        if r.random() < 0.5:
            n = n + b"%d" % r.randrange(100)
        return n
    L = r.choice([1, 2, 3, 5, 8, 12, 20, maxlen])
    L = max(1, min(L, maxlen))
    al = alphabet or b"abcdefghijklmnopqrstuvwxyzABCDEFGHIJKLMNOPQRSTUVWXYZ0123456789_-."
    while True:
        n = bytes(r.choice(al) for _ in range(L))
        if n not in (b".", b".."):
            return n


def rand_content(r, bs, feature):
    """Returns a content spec exercising `feature` relative to block size bs."""
    seed = r.getrandbits(48)
    k = r.choice([1, 1, 2, 3])
    if feature == "empty":
        return []
    if feature == "one":
        return [("bytes", bytes([r.randrange(256)]))]
    if feature == "small":
        return [("rand", seed, r.randrange(1, min(bs, 3000)))]
    if feature == "text":
        return [("rep", b"the quick brown fox %d\n" % r.randrange(10), r.randrange(1, 3 * bs))]
    if feature == "kB-1":
        return [("rand", seed, k * bs - 1)]
    if feature == "kB":
        return [("rand", seed, k * bs)]
    if feature == "kB+1":
        return [("rand", seed, k * bs + 1)]
    if feature == "kB-comp":
        return [("rep", b"abcdefgh" * 8 + b"%d" % r.randrange(1000), k * bs + r.choice([-1, 0, 1]))]
    if feature == "allzero":
        return [("zero", k * bs + r.choice([-1, 0, 1, 0, bs // 2]))]
    if feature == "zerotail":
        return [("rand", seed, bs), ("zero", r.choice([1, bs - 1, bs, bs + 1, 2 * bs]))]
    if feature == "zerohead":
        return [("zero", r.choice([bs, 2 * bs, bs + 1, bs - 1])), ("rand", seed, r.choice([1, 100, bs, bs + 1]))]
    if feature == "holes":
        segs = []
        for i in range(r.randrange(2, 6)):
            if r.random() < 0.5:
                segs.append(("zero", r.choice([bs, 2 * bs, bs // 2, 3 * bs + 5])))
            else:
                segs.append(("rand", r.getrandbits(48), r.choice([1, bs // 3, bs, bs + 7])))
        return segs
    if feature == "sameblocks":
        # k identical non-zero blocks; the pattern comes from a tiny pool so that files share blocks
        pat = r.choice([b"\xaa", b"pattern-Q", b"\x01\x02\x03"])
        blk = (pat * (bs // len(pat) + 1))[:bs]
        return [("bytes", blk * r.choice([1, 2, 3, 5, 8]))] + ([("bytes", b"t" * r.randrange(1, 50))] if r.random() < 0.4 else [])
    if feature == "mixed":
        return [("rand", seed, bs), ("rep", b"xyz", bs), ("zero", bs), ("rand", seed + 1, r.randrange(1, bs))]
    raise ValueError(feature)


CONTENT_FEATURES = ["empty", "one", "small", "small", "text", "kB-1", "kB", "kB+1", "kB-comp", "allzero",
                    "zerotail", "zerohead", "holes", "mixed", "sameblocks", "sameblocks"]

XATTR_PREFIXES = [b"user.", b"trusted.", b"security."]


def rand_xattrs(r, shared_values, n=None):
    out = {}
    n = n if n is not None else r.choice([1, 1, 2, 3, 5])
    for _ in range(n):
        key = r.choice(XATTR_PREFIXES) + rand_name(r, 12, 0.0, b"abcdefghijklmnop_.1")
        c = r.random()
        if c < 0.3 and shared_values:
            val = r.choice(shared_values)
        elif c < 0.5:
            val = r.randbytes(r.choice([0, 1, 7, 8, 9, 16, 100]))
        else:
            val = rand_name(r, 20, 0.0)
        out[key] = val
    return out


def gen_tree(r, bs=131072, max_entries=60, features=None, want=()):
    """Random tree.  Returns (tree dict path->Node, feature set)."""
    feats = set()
    tree = {b"": Node("dir", 0o755)}
    dirs = [b""]
    idpool = [0, 0, 0, 1, 1000, 65534, 65535, 65536, 0x7FFFFFFF, 0x80000000, U32, U32 - 1, r.randrange(U32)]
    mtimes = [0, 1, 1234567890, 0x7FFFFFFF, 0x80000000, U32, r.randrange(U32)]
    shared_vals = [r.randbytes(40), b"shared-value-" * 5, b"12345678", b"123456789"]
    n = r.choice([3, 8, 15, 30, max_entries])
    files = []
    use_xattr = "xattr" in want or r.random() < 0.4
    use_links = "links" in want or r.random() < 0.4
    use_special = "special" in want or r.random() < 0.5
    for i in range(n):
        parent = r.choice(dirs)
        for _ in range(5):
            name = rand_name(r)
            path = parent + b"/" + name if parent else name
            if path not in tree:
                break
        else:
            continue
        c = r.random()
        node = None
        if c < 0.2:
            node = Node("dir", r.choice([0o755, 0o700, 0o1777, 0o2755, 0o555, 0o4711 & 0o7777]))
            dirs.append(path)
        elif c < 0.7:
            f = r.choice(CONTENT_FEATURES)
            feats.add("content:" + f)
            node = Node("file", r.choice([0o644, 0o600, 0o755, 0o4755, 0o6755, 0o000, 0o444]), data=rand_content(r, bs, f))
            if files and r.random() < 0.15:
                # duplicate content of an existing file
                node.data = tree[r.choice(files)].data
                feats.add("content:duplicate")
            elif len(files) > 1 and r.random() < 0.1:
                other = tree[r.choice(files)].data
                if other and spec_len(other) > 10:
                    node.data = [("rand", r.getrandbits(40), bs)] + [other[-1]]
                    feats.add("content:shared-tail")
        elif c < 0.82:
            tl = r.choice([1, 5, 20, 100, 255, 256, 1000, 4000])
            tgt = rand_name(r, tl, 0.3) if r.random() < 0.7 else b"/".join(rand_name(r, 10) for _ in range(r.randrange(1, 6)))
            node = Node("slink", 0o777, target=tgt)
            feats.add("slink")
        elif use_special:
            t = r.choice(["bdev", "cdev", "fifo", "sock"])
            node = Node(t, r.choice([0o600, 0o666, 0o640]))
            if t in ("bdev", "cdev"):
                node.dev = (r.choice([0, 1, 8, 255, 256, 4095]), r.choice([0, 1, 255, 256, 65535, (1 << 20) - 1]))
            feats.add("type:" + t)
        else:
            node = Node("file", 0o644, data=rand_content(r, bs, "small"))
        if r.random() < 0.5:
            node.uid = r.choice(idpool)
            node.gid = r.choice(idpool)
            feats.add("ids")
        if r.random() < 0.5:
            node.mtime = r.choice(mtimes)
        if use_xattr and r.random() < 0.4:
            node.xattrs = rand_xattrs(r, shared_vals)
            if node.type not in ("file", "dir"):
                # the kernel refuses user.* on symlinks and special files
                node.xattrs = {(b"trusted." + k[5:] if k.startswith(b"user.") else k): v for k, v in node.xattrs.items()}
            feats.add("xattr")
        tree[path] = node
        if node.type == "file":
            files.append(path)
    if use_links and files:
        for _ in range(r.randrange(1, 5)):
            cand = [p for p in tree if tree[p].type not in ("dir",) and tree[p].link_to is None and p]
            if not cand:
                break
            tgt = r.choice(cand)
            parent = r.choice(dirs)
            name = rand_name(r)
            path = parent + b"/" + name if parent else name
            if path in tree:
                continue
            tree[path] = Node(tree[tgt].type, link_to=tgt)
            feats.add("hardlink")
    return tree, feats


# ------------------------------------------------------------------ materialise: real directory

def mk_socket(path):
    d, n = os.path.split(path)
    cwd = os.open(".", os.O_RDONLY)
    try:
        os.chdir(d)
        s = socket.socket(socket.AF_UNIX, socket.SOCK_STREAM)
        try:
            s.bind(n if isinstance(n, str) else n)
        finally:
            s.close()
    finally:
        os.fchdir(cwd)
        os.close(cwd)


def materialise_dir(tree, root, with_xattr=True, with_owner=True, with_time=True, sparse=True):
    """Create the tree under `root` (bytes or str path; must not exist or be empty)."""
    rootb = os.fsencode(root)
    os.makedirs(rootb, exist_ok=True)
    order = sort_paths([p for p in tree if p])
    # primaries first, links later
    for p in order:
        n = tree[p]
        full = rootb + b"/" + p
        if n.link_to is not None:
            continue
        if n.type == "dir":
            os.mkdir(full)
        elif n.type == "file":
            write_spec(full, n.data or [], sparse)
        elif n.type == "slink":
            os.symlink(n.target, full)
        elif n.type == "fifo":
            os.mkfifo(full)
        elif n.type == "sock":
            if len(os.path.basename(full)) < 100:
                mk_socket(full)
            else:
                os.mknod(full, stat.S_IFSOCK | 0o644)
        elif n.type == "bdev":
            os.mknod(full, stat.S_IFBLK | 0o600, os.makedev(*n.dev))
        elif n.type == "cdev":
            os.mknod(full, stat.S_IFCHR | 0o600, os.makedev(*n.dev))
    for p in order:
        n = tree[p]
        if n.link_to is not None:
            os.link(rootb + b"/" + n.link_to, rootb + b"/" + p, follow_symlinks=False)
    # attributes bottom-up so directory mtimes survive
    for p in reversed(order):
        n = tree[p]
        if n.link_to is not None:
            continue
        full = rootb + b"/" + p
        if with_owner:
            os.lchown(full, n.uid, n.gid)
        if n.type != "slink":
            os.chmod(full, n.mode)
        if with_xattr:
            for k, v in n.xattrs.items():
                os.setxattr(full, k, v, follow_symlinks=False)
        if with_time:
            os.utime(full, (n.mtime, n.mtime), follow_symlinks=False)


# ------------------------------------------------------------------ materialise: pack file

def quote_arg(b, force=False):
    if not force and b and all(c not in b' \t"\\#' for c in b) and not b.startswith(b'"'):
        # plain token is fine (separators are space and tab only)
        return b
    return b'"' + b.replace(b"\\", b"\\\\").replace(b'"', b'\\"') + b'"'


def pack_file_lines(tree, locations=None, r=None, order=None, root_line=True, always_quote=False):
    """Returns bytes of a pack file describing `tree`.  locations: path -> input location (bytes) or None."""
    lines = []
    paths = order or sort_paths([p for p in tree if p])
    if root_line:
        n = tree[b""]
        lines.append(b"dir / %o %d %d" % (n.mode, n.uid, n.gid))
    deferred = []
    for p in paths:
        n = tree[p]
        q = quote_arg(b"/" + p, always_quote)
        if n.link_to is not None:
            deferred.append(b"link %s 0 0 0 %s" % (q, quote_arg(b"/" + n.link_to, always_quote)))
            continue
        head = b" %o %d %d" % (n.mode, n.uid, n.gid)
        if n.type == "dir":
            lines.append(b"dir " + q + head)
        elif n.type == "file":
            loc = locations.get(p) if locations else None
            lines.append(b"file " + q + head + (b" " + quote_arg(loc, always_quote) if loc is not None else b""))
        elif n.type == "slink":
            lines.append(b"slink " + q + head + b" " + quote_arg(n.target, always_quote))
        elif n.type == "fifo":
            lines.append(b"pipe " + q + head)
        elif n.type == "sock":
            lines.append(b"sock " + q + head)
        elif n.type in ("bdev", "cdev"):
            lines.append(b"nod " + q + head + b" %s %d %d" % (b"b" if n.type == "bdev" else b"c", n.dev[0], n.dev[1]))
    return b"\n".join(lines + deferred) + b"\n"


def xattr_file(tree, r=None):
    """getfattr --dump style file for all nodes with xattrs."""
    out = []
    for p in sort_paths([p for p in tree]):
        n = tree[p]
        if not n.xattrs or n.link_to is not None:
            continue
        out.append(b"# file: " + (p if p else b"/"))
        for k, v in n.xattrs.items():
            mode = r.randrange(3) if r else 0
            textual = all(32 <= c < 127 and c not in b'"\\' for c in v) and len(v) > 0
            if mode == 0 and textual:
                out.append(k + b'="' + v + b'"')
            elif mode == 1:
                import base64
                out.append(k + b"=0s" + base64.b64encode(v))
            else:
                out.append(k + b"=0x" + v.hex().encode())
        out.append(b"")
    return b"\n".join(out) + b"\n"
