"""One gensquashfs packing case: generate tree + configuration, materialise,
pack with the asan build, decode with the independent parser and through the
rdsquashfs views, validate the layout.  Shared by C01 (fidelity keys) and
C03 (validator keys, prefixed 'c03:')."""
import os, shutil, json
from . import core, build, gentree, sqfsimg, views

COMPRESSORS = ["gzip", "xz", "lzma", "lz4", "zstd"]


def rand_config(r, small=False):
    c = {}
    c["comp"] = r.choice(COMPRESSORS)
    extra = []
    if r.random() < 0.4:
        if c["comp"] == "gzip":
            extra = r.choice([["level=1"], ["level=%d" % r.randrange(1, 10), "window=%d" % r.randrange(8, 16)],
                              ["filtered", "huffman"], ["rle", "fixed", "default"], ["window=8"]])
        elif c["comp"] in ("xz", "lzma"):
            extra = r.choice([["level=0"], ["level=9"], ["dictsize=8K"], ["dictsize=8192"], ["lc=1", "lp=2"], ["pb=0"], ["extreme"],
                              ["lc=4", "lp=0", "pb=4"]])
            if c["comp"] == "xz" and r.random() < 0.4:
                extra = extra + r.choice([["x86"], ["arm", "armthumb"], ["sparc", "ia64", "powerpc"]])
        elif c["comp"] == "zstd":
            extra = ["level=%d" % r.choice([1, 3, 15, 19, 22])]
        elif c["comp"] == "lz4":
            extra = ["hc"]
    c["extra"] = extra
    c["bs"] = r.choice([4096, 4096, 8192, 16384, 32768, 65536, 131072] + ([] if small else [262144, 1048576]))
    c["devbs"] = r.choice([None, None, 1024, 4096, 8192, 65536, 3000, 1025, 10000, 100000])   # any value >= 1024 is accepted, not only powers of two
    c["T"] = r.random() < 0.3
    c["e"] = r.random() < 0.4
    c["j"] = r.choice([None, 1, 2, 3, 4, 8, 16])
    c["Q"] = r.choice([None, None, 1, 2, 5, 100])
    c["defaults"] = None
    if r.random() < 0.4:
        d = {}
        if r.random() < 0.6:
            d["uid"] = r.choice([0, 1000, 65536, 0x7FFFFFFF])
        if r.random() < 0.6:
            d["gid"] = r.choice([0, 100, 0x7FFFFFFF])
        if r.random() < 0.6:
            d["mode"] = r.choice([0o755, 0o700, 0o1777, 0o0])
        if r.random() < 0.6:
            d["mtime"] = r.choice([0, 1, 1600000000, 0xFFFFFFFF])
        c["defaults"] = d
    c["set_uid"] = r.choice([None, None, None, 0, 1234, 0xFFFFFFFF])
    c["set_gid"] = r.choice([None, None, None, 0, 4321])
    c["all_root"] = r.random() < 0.1
    c["k"] = r.random() < 0.5
    c["x"] = r.random() < 0.6
    c["H"] = r.random() < 0.2
    c["sde"] = r.choice([None, None, None, 1500000000])
    c["input"] = r.choice(["dir", "dir", "packfile", "packfile", "packfile-implicit", "glob"])
    c["glob_keeptime"] = r.random() < 0.5
    c["glob_nohardlinks"] = r.random() < 0.3
    c["glob_fixed"] = r.choice([None, None, (0o750, 77, 88)])
    c["glob_target"] = r.choice([b"", b"", b"sub/dir"])
    # a sort file only changes the layout (order, per-file storage flags), never the tree
    c["sort"] = r.getrandbits(32) if r.random() < 0.3 else None
    # pack file lines children first: directories are created implicitly and their own line arrives later
    c["pack_order"] = "children-first" if r.random() < 0.3 else None
    c["optseed"] = r.getrandbits(32) if r.random() < 0.5 else None
    return c


def sort_file_lines(seed):
    import random
    r = random.Random(seed)
    lines = []
    for _ in range(r.choice([1, 2, 4, 7])):
        flags = ["glob_no_path"] + [f for f in ("dont_compress", "dont_fragment", "nosparse", "dont_deduplicate") if r.random() < 0.3]
        pat = r.choice(["*", "*a*", "*e*", "?*", "*.*", "*0*", "f*", "*1", "??"])
        lines.append("%d [%s] %s" % (r.choice([-1000, -1, 0, 0, 1, 5, 99999]), ",".join(flags), pat))
    return ("\n".join(lines) + "\n").encode()


def config_args(c):
    groups = [["-c", c["comp"]] + (["-X", ",".join(c["extra"])] if c.get("extra") else []), ["-b", str(c["bs"])], ["-q"]]
    if c.get("devbs"):
        groups.append(["-B", str(c["devbs"])])
    if c.get("T"):
        groups.append(["-T"])
    if c.get("e"):
        groups.append(["-e"])
    if c.get("j"):
        groups.append(["-j", str(c["j"])])
    if c.get("Q"):
        groups.append(["-Q", str(c["Q"])])
    if c.get("defaults"):
        d = c["defaults"]
        parts = []
        for k in ("uid", "gid", "mtime"):
            if k in d:
                parts.append("%s=%d" % (k, d[k]))
        if "mode" in d:
            parts.append("mode=0%o" % d["mode"])
        groups.append(["-d", ",".join(parts)])
    if c.get("all_root"):
        groups.append(["--all-root"])
    else:
        if c.get("set_uid") is not None:
            groups.append(["-u", str(c["set_uid"])])
        if c.get("set_gid") is not None:
            groups.append(["-g", str(c["set_gid"])])
    if c.get("optseed") is not None:
        # the effect of an option must not depend on its position on the command line
        import random
        random.Random(c["optseed"]).shuffle(groups)
    return [x for g in groups for x in g]


def expected_for(tree, c):
    d = {"uid": 0, "gid": 0, "mode": 0o755, "mtime": c["sde"] if c.get("sde") is not None else 0}
    d.update(c.get("defaults") or {})
    su = 0 if c.get("all_root") else c.get("set_uid")
    sg = 0 if c.get("all_root") else c.get("set_gid")
    if c["input"] == "dir":
        return views.expect_from_tree(tree, d, keep_time=c.get("k"), set_uid=su, set_gid=sg, keep_xattr=c.get("x"),
                                      hard_links=not c.get("H"), root_from_defaults=True)
    if c["input"] == "glob":
        # man page, "File Globbing": scanned recursively into the (implicitly created) target; mode/uid/gid applied to new entries or kept for '*';
        # time stamps only with -keeptime; hard links unless -nohardlinks; no xattrs
        e = views.expect_from_tree(tree, d, keep_time=c.get("glob_keeptime"), set_uid=su, set_gid=sg, keep_xattr=False,
                                   hard_links=not c.get("glob_nohardlinks"), root_from_defaults=True)
        if c.get("glob_fixed"):
            m, u, g = c["glob_fixed"]
            for p, x in e.items():
                if p == b"":
                    continue
                if x["type"] != "slink":
                    x["mode"] = m
                x["uid"] = u if su is None else su
                x["gid"] = g if sg is None else sg
        tgt = c.get("glob_target") or b""
        if tgt:
            out = {}
            for p, x in e.items():
                if p == b"":
                    continue
                x = dict(x)
                x["group"] = tgt + b"/" + x["group"]
                out[tgt + b"/" + p] = x
            dd = {"type": "dir", "mode": d["mode"], "uid": d["uid"] if su is None else su, "gid": d["gid"] if sg is None else sg, "mtime": d["mtime"], "xattrs": []}
            for par in [b""] + list(gentree.parents(tgt + b"/x")):
                out[par] = dict(dd, group=par)
            e = out
        return e
    if c["input"] == "glob-types":
        # "glob / * * * -type d ." followed by "glob / * * * -type f .": directories and regular files, every name of a multiply linked file
        e = views.expect_from_tree(tree, d, keep_time=False, set_uid=su, set_gid=sg, keep_xattr=False, hard_links=True, root_from_defaults=True)
        return {p_: x for p_, x in e.items() if x["type"] in ("dir", "file")}
    if c["input"] == "glob-dirs":
        # every non-directory has its own pack file line (directories are created implicitly); a final
        # "glob / * * * -type d -keeptime ." then supplies the attributes of the directories from the scanned tree
        e = views.expect_from_tree(tree, d, keep_time=False, set_uid=su, set_gid=sg, keep_xattr=False, hard_links=True, root_from_defaults=True)
        ek = views.expect_from_tree(tree, d, keep_time=True, set_uid=su, set_gid=sg, keep_xattr=False, hard_links=True, root_from_defaults=True)
        for p_, x in e.items():
            if p_ and x["type"] == "dir":
                x["mtime"] = ek[p_]["mtime"]
        return e
    # pack file: the root line sets the root; no times; xattrs through -A
    e = views.expect_from_tree(tree, d, keep_time=False, set_uid=su, set_gid=sg, keep_xattr=c.get("xattr_file", False),
                               hard_links=True, root_from_defaults=False)
    e[b""]["mtime"] = d["mtime"]
    return e


def run_pack(binaries, tree, c, work, oc, env_extra=None, timeout=600, stack_kb=None):
    """Materialise + run gensquashfs.  Returns (RunResult, image path)."""
    img = os.path.join(work, "out.sqfs")
    args = config_args(c)
    if c.get("sort") is not None:
        sf = os.path.join(work, "sort.txt")
        with open(sf, "wb") as f:
            f.write(sort_file_lines(c["sort"]))
        args += ["-S", sf]
        oc.inc("with_sort_file")
    env = {}
    if c.get("sde") is not None:
        env["SOURCE_DATE_EPOCH"] = str(c["sde"])
    if env_extra:
        env.update(env_extra)
    if c["input"] == "glob":
        root = os.path.join(work, "in")
        gentree.materialise_dir(tree, root)
        pf = os.path.join(work, "glob.txt")
        fx = c.get("glob_fixed")
        line = b"glob /" + (c.get("glob_target") or b"") + (b" 0%o %d %d" % fx if fx else b" * * *")
        if c.get("glob_keeptime"):
            line += b" -keeptime"
        if c.get("glob_nohardlinks"):
            line += b" -nohardlinks"
        line += b" .\n"
        with open(pf, "wb") as f:
            f.write(line)
        args += ["-F", pf, "-D", root]
    elif c["input"] == "glob-types":
        root = os.path.join(work, "in")
        gentree.materialise_dir(tree, root)
        pf = os.path.join(work, "globtypes.txt")
        with open(pf, "wb") as f:
            f.write(b"glob / * * * -type d -- .\nglob / * * * -type f -- .\n")
        args += ["-F", pf, "-D", root]
    elif c["input"] == "glob-dirs":
        root = os.path.join(work, "in")
        gentree.materialise_dir(tree, root)
        nd = {p_: n_ for p_, n_ in tree.items() if p_ == b"" or n_.type != "dir"}
        lines = gentree.pack_file_lines(nd, {p_: p_ for p_, n_ in nd.items() if n_.type == "file" and n_.link_to is None}, root_line=False)
        pf = os.path.join(work, "globdirs.txt")
        with open(pf, "wb") as f:
            f.write(lines + b"glob / * * * -type d -keeptime .\n")
        args += ["-F", pf, "-D", root]
    elif c["input"] == "dir":
        root = os.path.join(work, "in")
        gentree.materialise_dir(tree, root)
        args += ["-D", root]
        if c.get("k"):
            args.append("-k")
        if c.get("x"):
            args.append("-x")
        if c.get("H"):
            args.append("-H")
    else:
        fdir = os.path.join(work, "files")
        os.makedirs(fdir, exist_ok=True)
        locs = {}
        if c["input"] == "packfile":
            i = 0
            for p, n in tree.items():
                if n.type == "file" and n.link_to is None:
                    name = b"f%05d" % i
                    i += 1
                    gentree.write_spec(os.path.join(os.fsencode(fdir), name), n.data or [])
                    locs[p] = name
        else:
            # file content at <packdir>/<path>
            only = {p: (n if n.type in ("file", "dir") and n.link_to is None else None) for p, n in tree.items()}
            for p in gentree.sort_paths([p for p in tree if p]):
                n = tree[p]
                full = os.fsencode(fdir) + b"/" + p
                if n.type == "dir":
                    os.makedirs(full, exist_ok=True)
                elif n.type == "file" and n.link_to is None:
                    os.makedirs(os.path.dirname(full), exist_ok=True)
                    gentree.write_spec(full, n.data or [])
        pf = os.path.join(work, "pack.txt")
        with open(pf, "wb") as f:
            order = None
            if c.get("pack_order") == "children-first":
                order = list(reversed(gentree.sort_paths([p for p in tree if p])))
                oc.inc("pack_file_children_first")
            f.write(gentree.pack_file_lines(tree, locs if c["input"] == "packfile" else None, order=order,
                                            always_quote=c.get("always_quote", False)))
        args += ["-F", pf, "-D", fdir]
        if c.get("xattr_file"):
            xf = os.path.join(work, "xattr.txt")
            with open(xf, "wb") as f:
                f.write(gentree.xattr_file(tree, core.rng_for("xf", len(tree))))
            args += ["-A", xf]
    r = core.run_tool([binaries["gensquashfs"]] + args + [img], env=env, timeout=timeout, stack_kb=stack_kb)
    oc.inc("pack_runs")
    return r, img


def xattr_file_ok(tree):
    """The getfattr-style file cannot express every path / key; use it only where its syntax is unambiguous."""
    for p, n in tree.items():
        if n.xattrs:
            if p != p.strip() or b"\n" in p or b"\r" in p or p.startswith(b"#"):
                return False
            for k in n.xattrs:
                if b"=" in k or k != k.strip() or b"\n" in k:
                    return False
    return True


def unpack_view(binaries, img, expected, tree, c, work, oc, keyprefix="fidelity"):
    root = os.path.join(work, "unp")
    os.makedirs(root, exist_ok=True)
    # user.* xattrs cannot be set on symlinks/special files: environment, not tool behaviour
    # ... and the host limits xattr names to 255 bytes (XATTR_NAME_MAX)
    userx_special = any((e["type"] not in ("file", "dir") and any(k.startswith(b"user.") for k, _ in e.get("xattrs", []))) or
                        any(len(k) > 255 for k, _ in e.get("xattrs", []))
                        for e in expected.values())
    flags = ["-C", "-O", "-T", "-q"] + ([] if userx_special else ["-X"])
    if any(len(comp) > 255 for p in expected for comp in p.split(b"/")):
        oc.inc("unpack_skipped_name_max")
        return
    r = views.rd(binaries, ["-u", "/", "-p", root] + flags, img, timeout=600)
    oc.inc("cli_unpack")
    if r.san:
        oc.violate(r.san, "rdsquashfs -u /", {"stderr.txt": r.err})
        return
    if r.hang:
        oc.violate("rdsquashfs:hang:unpack", "")
        return
    if r.rc != 0:
        oc.violate("%s:unpack:fails" % keyprefix, "rc=%d %s" % (r.rc, r.err[:300]))
        return
    snap = views.snapshot_dir(root)
    exp = {}
    for p, e in expected.items():
        e2 = dict(e)
        if p == b"":
            # the unpack root pre-exists; only its children are compared plus attributes set by the tool
            e2 = {"type": "dir"}
        if userx_special or not e.get("xattrs"):
            e2.pop("xattrs", None)
        if e2.get("type") == "slink":
            e2.pop("mode", None)
        # fchownat(-1) leaves the owner unchanged: environment, not tool behaviour
        if e2.get("uid") == 0xFFFFFFFF:
            e2.pop("uid")
        if e2.get("gid") == 0xFFFFFFFF:
            e2.pop("gid")
        # names longer than NAME_MAX cannot exist on the host file system

        exp[p] = e2
    for p in snap:
        snap[p].pop("nlink", None)
    views.compare_models(exp, snap, oc, "unpack", check_links=False, keyprefix=keyprefix)
    oc.inc("unpack_entries", len(snap))
    views.force_rmtree(root)


def decode_and_compare(binaries, img, expected, tree, c, work, oc, rng, cli=True, unpack=True, keyprefix="fidelity"):
    """Parser view + CLI views + validator.  Returns parsed image or None."""
    with open(img, "rb") as f:
        data = f.read()
    try:
        im = sqfsimg.parse(data)
    except sqfsimg.ParseError as e:
        oc.violate("%s:parser:image-unreadable" % keyprefix, str(e)[:300])
        oc.violate("c03:unparseable", str(e)[:300])
        return None
    except Exception as e:
        oc.violate("%s:parser:exception" % keyprefix, repr(e)[:300])
        return None
    model = sqfsimg.tree_model(im)
    n = views.compare_models(expected, model, oc, "parser", keyprefix=keyprefix)
    oc.inc("parser_fields", n)
    # validator
    for rule, where, detail in im.problems:
        oc.violate("c03:" + rule, "%s: %s" % (where if isinstance(where, str) else repr(where), detail))
    devbs = c.get("devbs") or 4096
    if len(data) % devbs != 0:
        oc.violate("c03:sb.padded-to-devblk", "file length %d not a multiple of %d" % (len(data), devbs))
    if not (im.sb["bytes_used"] <= len(data) < im.sb["bytes_used"] + devbs):
        oc.violate("c03:sb.bytes-used-vs-length", "bytes_used %d, length %d, devblk %d" % (im.sb["bytes_used"], len(data), devbs))
    if im.sb["block_size"] != c["bs"]:
        oc.violate("%s:parser:block-size" % keyprefix, "asked %d got %d" % (c["bs"], im.sb["block_size"]))
    if sqfsimg.COMP_NAMES.get(im.sb["compressor"]) != c["comp"]:
        oc.violate("%s:parser:compressor" % keyprefix, "asked %s got %d" % (c["comp"], im.sb["compressor"]))
    if bool(c.get("e")) != (im.export is not None):
        oc.violate("%s:parser:export-table" % keyprefix, "-e=%s export table present=%s" % (c.get("e"), im.export is not None))
    for k, v in im.evals.items():
        oc.inc("rule:" + k, v)
    for k, v in im.facts.items():
        if k not in ("data_start", "file_len"):
            oc.inc("fact:" + k, v)
    if cli:
        views.cli_views(binaries, img, expected, oc, rng, keyprefix=keyprefix)
        dirs = [p for p, e in expected.items() if e["type"] == "dir"]
        if len(dirs) > 6:
            dirs = rng.sample(dirs, 6)
        # names with newline are out of scope for the line based listing
        if not any(b"\n" in p for p in expected):
            views.list_view(binaries, img, expected, oc, dirs, keyprefix=keyprefix)
    if unpack:
        unpack_view(binaries, img, expected, tree, c, work, oc, keyprefix=keyprefix)
    return im
