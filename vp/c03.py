"""C03 on-disk invariants: the validator of vp/sqfsimg.py on images written by
gensquashfs (layout-focused generator + the C01 generator) and tar2sqfs."""
import os, traceback
from . import core, build, gentree, sqfsimg, views, packcase, c01
from .gentree import Node

PROP = "C03"


def layout_tree(r, kind, bs):
    t = {b"": Node("dir", 0o755)}
    if kind == "straddle":
        # directory with 257+ entries, names sized so that headers straddle 8 KiB metadata blocks
        n = r.choice([257, 300, 513, 800])
        L = r.choice([1, 7, 20, 31, 60, 200])
        for i in range(n):
            nm = (b"%0*d" % (max(L, 4), i))[:256]
            t[b"d/" + nm] = Node(r.choice(["fifo", "file", "slink"]), 0o644, data=[("bytes", b"x")], target=b"t%d" % i)
        t[b"d"] = Node("dir", 0o755)
    elif kind == "far-hardlink":
        # > 32767 inodes between a directory and a hard-linked target
        t[b"a"] = Node("dir", 0o755)
        t[b"a/target"] = Node("file", 0o644, data=[("bytes", b"T")])
        t[b"m"] = Node("dir", 0o755)
        for i in range(r.choice([32766, 32769, 40000])):
            t[b"m/%05d" % i] = Node("fifo", 0o600)
        t[b"z"] = Node("dir", 0o755)
        t[b"z/link"] = Node("file", link_to=b"a/target")
        t[b"z/other"] = Node("fifo", 0o600)
    elif kind == "incompressible-names":
        rr = r
        t[b"d"] = Node("dir", 0o755)
        for i in range(r.choice([40, 120, 400])):
            nm = bytes(rr.choice(b"abcdefghijklmnopqrstuvwxyzABCDEFGHIJKLMNOPQRSTUVWXYZ0123456789") for _ in range(r.choice([100, 200, 255])))
            t[b"d/" + nm] = Node("fifo", 0o600, uid=rr.randrange(1 << 32), gid=rr.randrange(1 << 32), mtime=rr.randrange(1 << 32))
    elif kind == "short-incompressible":
        for i in range(60):
            n = r.choice([1, 2, 3, 4, 5, 8, 16, 20, 50, 100, 200, bs - 1, bs, bs + 1, bs + 5])
            t[b"f%03d" % i] = Node("file", 0o644, data=[("rand", r.getrandbits(40), n)])
    elif kind == "deep":
        p = b""
        for i in range(r.choice([10, 40, 100])):
            p = p + b"/d" if p else b"d"
            t[p] = Node("dir", 0o755)
            t[p + b"/f"] = Node("file", 0o644, data=[("bytes", b"%d" % i)])
    elif kind == "many-frag-blocks":
        for i in range(r.choice([600, 1100])):
            t[b"f%04d" % i] = Node("file", 0o644, data=[("rand", r.getrandbits(40), r.choice([bs // 2, bs - 1, bs // 3]))])
    elif kind == "ext-everything":
        t[b"d"] = Node("dir", 0o755, xattrs={b"user.a": b"b"})
        t[b"d/f"] = Node("file", 0o644, data=[("zero", bs * 2), ("bytes", b"x")], xattrs={b"user.a": b"b"})
        t[b"d/l"] = Node("slink", 0o777, target=b"x", xattrs={b"trusted.a": b"b"})
        t[b"d/c"] = Node("cdev", 0o600, dev=(1, 2), xattrs={b"trusted.a": b"c"})
        t[b"d/p"] = Node("fifo", 0o600, xattrs={b"security.a": b"c"})
        t[b"d/s"] = Node("sock", 0o600, xattrs={b"security.a": b"c"})
        t[b"d/f2"] = Node("file", link_to=b"d/f")
        t[b"d/l2"] = Node("slink", link_to=b"d/l")
    return t


LAYOUT_KINDS = ["straddle", "far-hardlink", "incompressible-names", "short-incompressible", "deep", "many-frag-blocks", "ext-everything"]


def run_case(arg):
    kind, idx, tier = arg
    binaries = build.build("asan")
    oc = core.Outcome("%s-%d" % (kind, idx))
    try:
        with core.Scratch("c03") as work:
            r = core.rng_for(PROP, kind, idx)
            c = packcase.rand_config(r, small=True)
            if kind == "dirsize":
                tree, c, res, img = c01.dirsize_case(binaries, c01.DIRSIZE_TARGETS[idx], work, oc)
                feats = {"dir-listing-%d-bytes" % c01.DIRSIZE_TARGETS[idx]}
                oc.features = tuple(feats)
                oc.sample = {"case": "dir-listing-%d-bytes" % c01.DIRSIZE_TARGETS[idx]}
                if res.san:
                    oc.violate("c03:" + res.san, "gensquashfs", {"stderr.txt": res.err})
                    return oc
                if res.hang or res.rc != 0:
                    oc.inconclusive.append("pack failed rc=%s %s" % (res.rc, res.err[-200:]))
                    return oc
                packcase.decode_and_compare(binaries, img, packcase.expected_for(tree, c), tree, c, work, oc, r, cli=False, unpack=False)
                oc.inc("images")
                return oc
            if kind == "huge":
                # a file that crosses 4 GiB without a sparse block before that point (holes kept by nosparse): the inode must
                # become an extended one at the crossing; block list of 4096+ entries; fast compressor, 1 MiB blocks
                size = (4 << 30) + (100, 1048576 + 7, 0)[idx % 3]
                root = os.path.join(work, "in")
                os.makedirs(root)
                with open(os.path.join(root, "big"), "wb") as f:
                    f.truncate(size)
                with open(os.path.join(root, "small"), "wb") as f:
                    f.write(b"small")
                sf = os.path.join(work, "sort.txt")
                with open(sf, "w") as f:
                    f.write("0 [nosparse] big\n")
                img = os.path.join(work, "out.sqfs")
                res = core.run_tool([binaries["gensquashfs"], "-q", "-c", ("lz4", "zstd")[idx % 2], "-b", "1048576", "-S", sf, "-D", root, img], timeout=600)
                oc.features = ("huge", size)
                oc.sample = {"case": "file of %d bytes, nosparse" % size, "exit": res.rc}
                if res.san:
                    oc.violate("c03:" + res.san, "gensquashfs", {"stderr.txt": res.err})
                    return oc
                if res.hang or res.rc != 0:
                    oc.inconclusive.append("pack failed rc=%s %s" % (res.rc, res.err[-200:]))
                    return oc
                try:
                    im = sqfsimg.parse(open(img, "rb").read(), want_content=False)
                except sqfsimg.ParseError as e:
                    oc.violate("c03:unparseable", str(e)[:300])
                    return oc
                for rule, where, detail in im.problems:
                    oc.violate("c03:" + rule, "%s %s" % (where, detail))
                for rule, n in im.evals.items():
                    oc.inc("rule:" + rule, n)
                ino = im.tree[b"big"]
                if ino.size != size or len(ino.block_words) != size // 1048576:
                    oc.violate("c03:inode.file-size-and-block-count", "size %d blocks %d, expected %d / %d" % (ino.size, len(ino.block_words), size, size // 1048576))
                oc.inc("images")
                oc.inc("huge_files")
                return oc
            if kind == "manyheaders":
                # a directory whose neighbouring entries never share an inode metadata block: one header per entry, more headers
                # than the 16 bit index count of the extended directory inode can announce
                n = (66000, 65535, 70000)[idx % 3]
                pf = os.path.join(work, "list.txt")
                with open(pf, "w") as f:
                    for i in range(600):
                        f.write("pipe /t/p%04d 0644 0 0\n" % i)
                    for k in range(n):
                        f.write("link /d/l%05d 0 0 0 /t/p%04d\n" % (k, 0 if k % 2 == 0 else 599))
                img = os.path.join(work, "out.sqfs")
                res = core.run_tool([binaries["gensquashfs"], "-q", "-c", "gzip", "-F", pf, img], timeout=900, cwd=work)
                oc.features = ("manyheaders", n)
                oc.sample = {"case": "%d directory headers" % n, "exit": res.rc}
                if res.san:
                    oc.violate("c03:" + res.san, "gensquashfs", {"stderr.txt": res.err})
                    return oc
                if res.hang:
                    oc.inconclusive.append("timeout")
                    return oc
                if res.rc != 0:
                    oc.inc("refused")          # refusing what cannot be represented is fine
                    oc.inc("images")
                    return oc
                try:
                    im = sqfsimg.parse(open(img, "rb").read(), want_content=False)
                except sqfsimg.ParseError as e:
                    oc.violate("c03:unparseable", str(e)[:300])
                    return oc
                for rule, where, detail in im.problems:
                    oc.violate("c03:" + rule, "%s %s" % (where, detail))
                for rule, cnt in im.evals.items():
                    oc.inc("rule:" + rule, cnt)
                oc.inc("images")
                oc.inc("many_header_dirs")
                return oc
            if kind == "layout":
                lk = LAYOUT_KINDS[idx % len(LAYOUT_KINDS)]
                if lk == "many-frag-blocks":
                    c["bs"] = 4096
                if lk in ("far-hardlink",) and tier == "quick" and idx >= 2 * len(LAYOUT_KINDS):
                    lk = "straddle"
                tree = layout_tree(r, lk, c["bs"])
                for p in list(tree):
                    for par in gentree.parents(p):
                        tree.setdefault(par, Node("dir", 0o755))
                c["input"] = "packfile"
                c["xattr_file"] = (lk == "ext-everything")
                feats = {lk, "comp:" + c["comp"], "bs:%d" % c["bs"], "e" if c["e"] else "", "T" if c["T"] else "", "B:%s" % c["devbs"]}
            else:
                tree, feats = gentree.gen_tree(r, bs=c["bs"], max_entries=60)
                if c["input"] == "glob":
                    c["input"] = "dir"
                if c["input"] != "dir":
                    if any(b"\n" in p or (n.target and b"\n" in n.target) for p, n in tree.items()):
                        c["input"] = "dir"
                    else:
                        c["xattr_file"] = packcase.xattr_file_ok(tree)
                if c["input"] == "dir":
                    for p, n in tree.items():
                        if n.uid == 0xFFFFFFFF:
                            n.uid = 1
                        if n.gid == 0xFFFFFFFF:
                            n.gid = 1
                feats = set(feats) | {"comp:" + c["comp"], "bs:%d" % c["bs"], "in:" + c["input"]}
            oc.features = tuple(sorted(feats))
            res, img = packcase.run_pack(binaries, tree, c, work, oc)
            oc.sample = {"case": oc.case_id, "kind": kind, "features": sorted(feats)[:8], "exit": res.rc}
            if res.san:
                oc.violate("c03:" + res.san, "gensquashfs", {"stderr.txt": res.err})
                return oc
            if res.hang or res.rc != 0:
                oc.inconclusive.append("pack failed rc=%s %s" % (res.rc, res.err[-200:]))
                return oc
            expected = packcase.expected_for(tree, c)
            packcase.decode_and_compare(binaries, img, expected, tree, c, work, oc, r, cli=False, unpack=False)
            oc.inc("images")
    except Exception:
        oc.inconclusive.append("harness exception: %s" % traceback.format_exc()[-600:])
    return oc


def main(tier):
    rep = core.Report(PROP, tier, "exploration",
                      "each case = one image written by gensquashfs (layout-focused trees: header straddling, far hard links, "
                      "incompressible metadata/data, deep trees, many fragment blocks, all extended inode types; a file crossing 4 GiB with its holes stored; plus the C01 random generator); "
                      "distinct = distinct (layout kind, compressor, block size, options) vectors; the validator's rule evaluations are counted per rule")
    build.build("asan")
    nl, nr = (35, 115) if tier == "quick" else (350, 2200)
    items = [("layout", i, tier) for i in range(nl)] + [("dirsize", i, tier) for i in range(len(c01.DIRSIZE_TARGETS))] + \
        [("random", i, tier) for i in range(nr)] + [("huge", i, tier) for i in range(1 if tier == "quick" else 3)] + \
        ([("manyheaders", i, tier) for i in range(3)] if tier != "quick" else [])
    only = os.environ.get("VERIF_ONLY")
    if only:
        k, i = only.split(":")
        items = [(k, int(i), tier)]
    for oc in core.pmap(run_case, items):
        if only:
            print(oc.sample, oc.violations, oc.inconclusive)
        oc.violations = [(k[4:], d, w) for k, d, w in oc.violations if k.startswith("c03:")]
        rep.add(oc)
    # rules evaluated zero times are flagged in the evidence
    rules = {k[5:]: v for k, v in rep.counters.items() if k.startswith("rule:")}
    rep.extra["rule_evaluations"] = rules
    rep.extra["boundary_layouts"] = {k[5:]: v for k, v in rep.counters.items() if k.startswith("fact:")}
    rep.required_nonzero = ["images", "rule:dir.header-count-le-256", "rule:meta.stored-le-uncompressed", "rule:data.stored-le-uncompressed",
                            "rule:dir.index-points-at-header", "rule:inode.nlink-equals-refs", "fact:multi_header_dirs"]
    rep.assumptions = ["vp/sqfsimg.py implements doc/format.adoc faithfully; the rules are the ones listed in DESIGN.md section 3/C03"]
    return rep.finish()
