"""Regenerates the 'fixed' part of known_findings.json from /repo's fix: commits; open entries are kept by hand in OPEN below."""
import json, os, subprocess
VERIF = os.path.dirname(os.path.dirname(os.path.abspath(__file__)))

# subject prefix -> (property, violation key the checks produced, what failed)
FIXED = [
    ("fix: gensquashfs: pass the hard link flag", "C01", "fidelity:parser:type", "pack-file 'link' line stored as a symlink (boundary case link-directive)"),
    ("fix: xattr writer: do not record a block location", "C01", "gensquashfs:heap-buffer-overflow:write_id_table", "exactly 512*k distinct xattr sets overflow the id-table location array"),
    ("fix: id table: refuse more IDs", "C01", "unrepresentable-accepted:ids-65536", "65536 distinct ids: id_count wraps to 0, exit 0, unreadable image"),
    ("fix: dir writer: refuse entry names longer", "C01", "unrepresentable-accepted:name-257-bytes", "names of 257..65536+ bytes accepted / corrupt the listing"),
    ("fix: fstree: refuse device numbers", "C01", "unrepresentable-accepted:dev-4096-0", "device major >= 4096 or minor >= 2^20 silently truncated"),
    ("fix: write_inode: convert block sizes in fixed size chunks", "C01", "gensquashfs:SEGV:write_block_sizes", "alloca stack overflow for files with millions of blocks"),
    ("fix: lz4: report blocks that did not shrink", "C03", "meta.stored-le-uncompressed", "lz4 stored blocks larger than their uncompressed size"),
    ("fix: data reader: bound the on-disk block size in the stream reader", "C05", "*:heap-buffer-overflow:dr_stream_get_buffered_data", "24-bit on-disk size trusted by the stream reader"),
    ("fix: data reader: key the cached data block by location and size word", "C10", "history:read:*", "data block cache keyed by location only"),
    ("fix: meta reader: invalidate the cached block", "C10", "history:meta:*", "failed seek leaves new bytes under the old tag"),
    ("fix: dir iterator: refuse to descend", "C05", "sqfs2tar:hang:*", "directory that lists itself makes sqfs2tar recurse forever"),
    ("fix: fstree: detect hard link cycles", "C07", "tar2sqfs:hang:hardlink-cycle", "hard-link cycle not through the start node spins forever"),
    ("fix: xfrm gzip: treat zlib data", "C07", "tar2sqfs:hang:gzip-corrupt", "corrupted gzip stream spins forever"),
    ("fix: gensquashfs: do not free an xattr map entry", "C07", "gensquashfs:double-free:*", "xattr file '# file: ../x' double free"),
    ("fix: thread pool: do not wait for items nobody will process", "C09", "pool:deadlock:*", "dequeue blocks forever after a worker failure with queued items"),
    ("fix: dir writer: report a failure to add the root to the export table", "C13", "gensquashfs:alloc@*:exit0-different-output", "export table allocation failure swallowed"),
    ("fix: block processor: check the result of set_block_size", "C13", "gensquashfs:alloc@set_block_size:*", "set_block_size failure ignored for sparse tails"),
    ("fix: writer: remove the output file if initialization fails", "C13", "*:output-left-behind", "init failure after open leaves the output file"),
    ("fix: gensquashfs: terminate quoted sort file names", "C17", "sort:quoted-name-no-match", "quoted sort file names never match"),
    ("fix: gensquashfs: print a diagnostic when reading a description file fails", "C13", "gensquashfs:*:silent-failure", "istream_get_line failure ends the run silently"),
    ("fix: common: do not fall back to another default compressor", "C13", "gensquashfs:alloc@*:exit0-different-output", "allocation failure while probing the default compressor selects another one"),
    ("fix: gensquashfs: keep extended attributes with an empty value", "C01", "fidelity:parser:xattrs", "--keep-xattr drops attributes with empty values"),
    ("fix: gensquashfs: apply --set-uid/--set-gid/--all-root to the root", "C01", "fidelity:parser:uid", "--set-uid/--all-root not applied to root and implicit directories"),
]


def main():
    out = subprocess.run(["git", "-C", "/repo", "log", "--format=%h %s"], capture_output=True, text=True).stdout.splitlines()
    commits = {}
    for l in out:
        h, s = l.split(" ", 1)
        if s.startswith("fix:"):
            commits[s] = h
    p = os.path.join(VERIF, "known_findings.json")
    cur = json.load(open(p)) if os.path.exists(p) else {"findings": []}
    open_entries = [f for f in cur["findings"] if f.get("status") == "open"]
    fixed = []
    used = set()
    extra = []
    x = os.path.join(VERIF, "vp", "known_fixed_extra.json")
    table = list(FIXED) + ([tuple(e) for e in json.load(open(x))] if os.path.exists(x) else [])
    for pre, prop, key, what in table:
        hits = [(s, h) for s, h in commits.items() if s.startswith(pre)]
        if not hits:
            print("WARNING: no commit for", pre)
            continue
        s, h = hits[0]
        used.add(s)
        fixed.append({"property": prop, "key": key, "status": "fixed", "commit": h, "summary": "fixed: property=%s %s %s" % (prop, h, what)})
    for s in commits:
        if s not in used:
            print("WARNING: fix commit without entry:", s)
    json.dump({"comment": "open entries suppress a matching violation key (printed as KNOWN-FINDING); fixed entries suppress nothing. Never written at run time.",
               "findings": open_entries + fixed}, open(p, "w"), indent=1)
    print("known_findings.json: %d open, %d fixed" % (len(open_entries), len(fixed)))


if __name__ == "__main__":
    main()
