"""Reference stream codecs (Python stdlib + ctypes libzstd), independent of lib/xfrm."""
import zlib, lzma, bz2, ctypes

_z = None


class _Buf(ctypes.Structure):
    _fields_ = [("ptr", ctypes.c_void_p), ("size", ctypes.c_size_t), ("pos", ctypes.c_size_t)]


def _zstd():
    global _z
    if _z is None:
        _z = ctypes.CDLL("libzstd.so.1")
        _z.ZSTD_createDStream.restype = ctypes.c_void_p
        _z.ZSTD_freeDStream.argtypes = [ctypes.c_void_p]
        _z.ZSTD_initDStream.argtypes = [ctypes.c_void_p]
        _z.ZSTD_initDStream.restype = ctypes.c_size_t
        _z.ZSTD_decompressStream.argtypes = [ctypes.c_void_p, ctypes.POINTER(_Buf), ctypes.POINTER(_Buf)]
        _z.ZSTD_decompressStream.restype = ctypes.c_size_t
        _z.ZSTD_isError.argtypes = [ctypes.c_size_t]
        _z.ZSTD_isError.restype = ctypes.c_uint
        _z.ZSTD_compress.argtypes = [ctypes.c_char_p, ctypes.c_size_t, ctypes.c_char_p, ctypes.c_size_t, ctypes.c_int]
        _z.ZSTD_compress.restype = ctypes.c_size_t
        _z.ZSTD_compressBound.argtypes = [ctypes.c_size_t]
        _z.ZSTD_compressBound.restype = ctypes.c_size_t
    return _z


def zstd_compress(data, level=3):
    z = _zstd()
    bound = z.ZSTD_compressBound(len(data))
    buf = ctypes.create_string_buffer(bound)
    n = z.ZSTD_compress(buf, bound, data, len(data), level)
    if z.ZSTD_isError(n):
        raise ValueError("zstd compress")
    return buf.raw[:n]


def zstd_decompress(data):
    """All concatenated frames; raises ValueError on corruption or truncation."""
    z = _zstd()
    ds = z.ZSTD_createDStream()
    z.ZSTD_initDStream(ds)
    out = bytearray()
    src = ctypes.create_string_buffer(data, len(data))
    ib = _Buf(ctypes.cast(src, ctypes.c_void_p), len(data), 0)
    obuf = ctypes.create_string_buffer(1 << 17)
    ret = 0
    try:
        frame_done = False
        while True:
            ob = _Buf(ctypes.cast(obuf, ctypes.c_void_p), len(obuf), 0)
            before = ib.pos
            ret = z.ZSTD_decompressStream(ds, ctypes.byref(ob), ctypes.byref(ib))
            if z.ZSTD_isError(ret):
                raise ValueError("zstd: corrupted stream")
            out += obuf.raw[:ob.pos]
            if ret == 0:
                frame_done = True
            elif ib.pos > before or ob.pos > 0:
                frame_done = False
            if ib.pos >= ib.size and ob.pos < ob.size:
                break
        if not frame_done:
            raise ValueError("zstd: truncated frame")
    finally:
        z.ZSTD_freeDStream(ds)
    return bytes(out)


def compress(codec, data, level=None):
    if codec == "gzip":
        c = zlib.compressobj(level if level is not None else 6, zlib.DEFLATED, 31)
        return c.compress(data) + c.flush()
    if codec == "xz":
        return lzma.compress(data, format=lzma.FORMAT_XZ, preset=level if level is not None else 1)
    if codec == "bzip2":
        return bz2.compress(data, level if level else 9)
    if codec == "zstd":
        return zstd_compress(data, level if level is not None else 3)
    raise ValueError(codec)


def gzip_with_sync_flushes(data, cuts):
    c = zlib.compressobj(6, zlib.DEFLATED, 31)
    out = bytearray()
    prev = 0
    marks = []
    for cut in cuts:
        out += c.compress(data[prev:cut])
        out += c.flush(zlib.Z_SYNC_FLUSH)
        marks.append(len(out))
        prev = cut
    out += c.compress(data[prev:]) + c.flush()
    return bytes(out), marks


def decompress(codec, data):
    """Decode all concatenated members; raises ValueError on error/truncation/garbage."""
    try:
        if codec == "gzip":
            out = bytearray()
            while data:
                d = zlib.decompressobj(31)
                out += d.decompress(data)
                if not d.eof:
                    raise ValueError("gzip: truncated")
                data = d.unused_data
                if data and set(data) == {0}:
                    break
            return bytes(out)
        if codec == "xz":
            out = bytearray()
            while data:
                d = lzma.LZMADecompressor(format=lzma.FORMAT_XZ)
                out += d.decompress(data)
                if not d.eof:
                    raise ValueError("xz: truncated")
                data = d.unused_data
                if data and set(data) == {0}:
                    break
            return bytes(out)
        if codec == "bzip2":
            out = bytearray()
            while data:
                d = bz2.BZ2Decompressor()
                out += d.decompress(data)
                if not d.eof:
                    raise ValueError("bzip2: truncated")
                data = d.unused_data
            return bytes(out)
        if codec == "zstd":
            return zstd_decompress(data)
    except (zlib.error, lzma.LZMAError, OSError, EOFError) as e:
        raise ValueError("%s: %s" % (codec, e))
    raise ValueError(codec)
