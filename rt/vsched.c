/* vsched.c - cooperative controllable scheduler for the unmodified thread pool (C09).
 * Every logical thread is a real pthread that only runs while it holds the baton;
 * every intercepted pthread call is a scheduling point at which a strategy picks the
 * next runnable thread.  Strategies: replayed prefix, depth-first enumeration with a
 * preemption bound (driven by the harness through decision prefixes), random walk. */
#define VSCHED_IMPL
#define _GNU_SOURCE
#include "vsched.h"
#include <stdio.h>
#include <stdlib.h>
#include <string.h>
#include <unistd.h>

#define MAXT 24
#define MAXCHOICE 4096

enum { ST_FREE, ST_RUNNABLE, ST_MUTEX, ST_COND, ST_JOIN, ST_DONE };

typedef struct {
	int state;
	void *wait_obj;
	pthread_t real;
	pthread_cond_t cv;
	void *(*fn)(void *);
	void *arg;
} lthread_t;

static lthread_t T[MAXT];
static int nthreads;
static int current;
static pthread_mutex_t big = PTHREAD_MUTEX_INITIALIZER;
static __thread int self_id = -1;

static const int *prefix;
static size_t prefix_len;
static int mode;		/* 0 = dfs/replay (default choice 0 after prefix), 1 = random */
static unsigned long long rng;
static int preempt_bound, preempt_used;
static int spurious_budget, spurious_used;
static int decisions[MAXCHOICE], options[MAXCHOICE], prealt[MAXCHOICE];
static size_t nchoice;
static unsigned long long sched_hash;
volatile int vs_deadlock_seen;

static unsigned long long splitmix(void)
{
	unsigned long long z = (rng += 0x9E3779B97F4A7C15ULL);
	z = (z ^ (z >> 30)) * 0xBF58476D1CE4E5B9ULL;
	z = (z ^ (z >> 27)) * 0x94D049BB133111EBULL;
	return z ^ (z >> 31);
}

static int choose(int n)
{
	int d;
	if (n <= 1)
		return 0;
	if (nchoice < prefix_len)
		d = prefix[nchoice] % n;
	else if (mode == 1)
		d = (int)(splitmix() % (unsigned)n);
	else
		d = 0;
	if (nchoice < MAXCHOICE) {
		decisions[nchoice] = d;
		options[nchoice] = n;
	}
	nchoice++;
	sched_hash = (sched_hash ^ (unsigned long long)(d + 1)) * 1099511628211ULL;
	return d;
}

static void dump_and_die(const char *what)
{
	size_t i;
	fprintf(stdout, "%s threads=%d schedule=", what, nthreads);
	for (i = 0; i < nchoice && i < MAXCHOICE; ++i)
		fprintf(stdout, "%d/%d,", decisions[i], options[i]);
	fprintf(stdout, " states=");
	for (i = 0; i < (size_t)nthreads; ++i)
		fprintf(stdout, "%d", T[i].state);
	fprintf(stdout, "\n");
	fflush(stdout);
	_exit(3);
}

static void switch_to(int next, int self)
{
	current = next;
	if (next != self)
		pthread_cond_signal(&T[next].cv);
	if (self >= 0) {
		while (current != self)
			pthread_cond_wait(&T[self].cv, &big);
	}
}

/* pick the next thread to run; self may be runnable (scheduling point) or blocked/done */
static void reschedule(int self)
{
	int cand[MAXT], n = 0, i, d;
	int self_runnable = (self >= 0 && T[self].state == ST_RUNNABLE);

	/* spurious wake-ups are an explicit, bounded choice */
	if (spurious_budget > spurious_used) {
		int w[MAXT], nw = 0;
		for (i = 0; i < nthreads; ++i)
			if (T[i].state == ST_COND)
				w[nw++] = i;
		if (nw > 0) {
			d = choose(1 + nw);
			if (d > 0) {
				T[w[d - 1]].state = ST_RUNNABLE;
				T[w[d - 1]].wait_obj = NULL;
				spurious_used++;
			}
		}
	}

	if (self_runnable)
		cand[n++] = self;
	for (i = 0; i < nthreads; ++i)
		if (i != self && T[i].state == ST_RUNNABLE)
			cand[n++] = i;

	if (n == 0) {
		for (i = 0; i < nthreads; ++i)
			if (T[i].state != ST_DONE && T[i].state != ST_FREE) {
				vs_deadlock_seen = 1;
				dump_and_die("DEADLOCK");
			}
		return;	/* everything finished */
	}

	if (self_runnable && preempt_bound >= 0 && preempt_used >= preempt_bound) {
		d = 0;	/* no preemption budget left: keep running */
	} else {
		d = choose(n);
		if (nchoice - 1 < MAXCHOICE && n > 1)
			prealt[nchoice - 1] = self_runnable;
	}
	if (self_runnable && d != 0)
		preempt_used++;
	switch_to(cand[d], self);
}

static void sched_point(void)
{
	reschedule(self_id);
}

static void block_self(int st, void *obj)
{
	T[self_id].state = st;
	T[self_id].wait_obj = obj;
	reschedule(self_id);
}

/* ------------------------------------------------------------------ API */

void vs_begin(const int *pfx, size_t pfx_len, int m, unsigned long long seed, int pb, int max_spur)
{
	int i;
	pthread_mutex_lock(&big);
	for (i = 0; i < MAXT; ++i) {
		if (T[i].state != ST_FREE && T[i].state != ST_DONE && i != 0) {
			fprintf(stdout, "HARNESS-ERROR thread %d still alive at vs_begin\n", i);
			_exit(4);
		}
		T[i].state = ST_FREE;
	}
	nthreads = 1;
	T[0].state = ST_RUNNABLE;
	T[0].wait_obj = NULL;
	pthread_cond_init(&T[0].cv, NULL);
	self_id = 0;
	current = 0;
	prefix = pfx;
	prefix_len = pfx_len;
	mode = m;
	rng = seed * 0x9E3779B97F4A7C15ULL + 12345;
	preempt_bound = pb;
	preempt_used = 0;
	spurious_budget = max_spur;
	spurious_used = 0;
	nchoice = 0;
	sched_hash = 1469598103934665603ULL;
	pthread_mutex_unlock(&big);
}

size_t vs_end(const int **d, const int **o, const int **p)
{
	int i;
	pthread_mutex_lock(&big);
	for (i = 1; i < nthreads; ++i) {
		if (T[i].state != ST_DONE) {
			fprintf(stdout, "HARNESS-ERROR thread %d not finished at vs_end (state %d)\n", i, T[i].state);
			_exit(4);
		}
	}
	pthread_mutex_unlock(&big);
	if (d) *d = decisions;
	if (o) *o = options;
	if (p) *p = prealt;
	return nchoice < MAXCHOICE ? nchoice : MAXCHOICE;
}

int vs_preemptions_used(void) { return preempt_used; }
int vs_spurious_used(void) { return spurious_used; }
unsigned long long vs_schedule_hash(void) { return sched_hash; }

void vs_print_schedule(void)
{
	size_t i;
	for (i = 0; i < nchoice && i < MAXCHOICE; ++i)
		printf("%d,", decisions[i]);
}

void vs_yield(void)
{
	pthread_mutex_lock(&big);
	sched_point();
	pthread_mutex_unlock(&big);
}

int vs_mutex_init(pthread_mutex_t *m, const pthread_mutexattr_t *a)
{
	(void)a;
	memset(m, 0, sizeof(*m));
	return 0;
}

int vs_mutex_destroy(pthread_mutex_t *m)
{
	if (*(int *)m != 0) {
		fprintf(stdout, "VIOLATION mutex destroyed while locked\n");
		fflush(stdout);
	}
	return 0;
}

static void acquire(pthread_mutex_t *m)
{
	int *owner = (int *)m;
	while (*owner != 0)
		block_self(ST_MUTEX, m);
	*owner = self_id + 1;
}

static void release(pthread_mutex_t *m)
{
	int *owner = (int *)m, i;
	if (*owner != self_id + 1) {
		fprintf(stdout, "VIOLATION mutex unlocked by non-owner (owner %d, thread %d)\n", *owner - 1, self_id);
		fflush(stdout);
	}
	*owner = 0;
	for (i = 0; i < nthreads; ++i)
		if (T[i].state == ST_MUTEX && T[i].wait_obj == m) {
			T[i].state = ST_RUNNABLE;
			T[i].wait_obj = NULL;
		}
}

int vs_mutex_lock(pthread_mutex_t *m)
{
	pthread_mutex_lock(&big);
	sched_point();
	acquire(m);
	pthread_mutex_unlock(&big);
	return 0;
}

int vs_mutex_unlock(pthread_mutex_t *m)
{
	pthread_mutex_lock(&big);
	release(m);
	sched_point();
	pthread_mutex_unlock(&big);
	return 0;
}

int vs_cond_init(pthread_cond_t *c, const pthread_condattr_t *a)
{
	(void)a;
	memset(c, 0, sizeof(*c));
	return 0;
}

int vs_cond_destroy(pthread_cond_t *c)
{
	int i;
	for (i = 0; i < nthreads; ++i)
		if (T[i].state == ST_COND && T[i].wait_obj == c) {
			fprintf(stdout, "VIOLATION condition variable destroyed with waiters\n");
			fflush(stdout);
		}
	return 0;
}

int vs_cond_wait(pthread_cond_t *c, pthread_mutex_t *m)
{
	pthread_mutex_lock(&big);
	/* a real thread can be preempted between testing its predicate and blocking */
	sched_point();
	release(m);
	block_self(ST_COND, c);
	acquire(m);
	pthread_mutex_unlock(&big);
	return 0;
}

int vs_cond_signal(pthread_cond_t *c)
{
	int w[MAXT], nw = 0, i, d;
	pthread_mutex_lock(&big);
	for (i = 0; i < nthreads; ++i)
		if (T[i].state == ST_COND && T[i].wait_obj == c)
			w[nw++] = i;
	if (nw > 0) {
		d = choose(nw);
		T[w[d]].state = ST_RUNNABLE;
		T[w[d]].wait_obj = NULL;
	}
	sched_point();
	pthread_mutex_unlock(&big);
	return 0;
}

int vs_cond_broadcast(pthread_cond_t *c)
{
	int i;
	pthread_mutex_lock(&big);
	for (i = 0; i < nthreads; ++i)
		if (T[i].state == ST_COND && T[i].wait_obj == c) {
			T[i].state = ST_RUNNABLE;
			T[i].wait_obj = NULL;
		}
	sched_point();
	pthread_mutex_unlock(&big);
	return 0;
}

static void *trampoline(void *arg)
{
	int id = (int)(long)arg, i;
	void *ret;

	pthread_mutex_lock(&big);
	self_id = id;
	while (current != id)
		pthread_cond_wait(&T[id].cv, &big);
	pthread_mutex_unlock(&big);

	ret = T[id].fn(T[id].arg);

	pthread_mutex_lock(&big);
	T[id].state = ST_DONE;
	for (i = 0; i < nthreads; ++i)
		if (T[i].state == ST_JOIN && T[i].wait_obj == (void *)(long)(id + 1)) {
			T[i].state = ST_RUNNABLE;
			T[i].wait_obj = NULL;
		}
	/* hand the baton on without waiting for it to come back */
	{
		int cand[MAXT], n = 0, d;
		for (i = 0; i < nthreads; ++i)
			if (T[i].state == ST_RUNNABLE)
				cand[n++] = i;
		if (n == 0) {
			for (i = 0; i < nthreads; ++i)
				if (T[i].state != ST_DONE && T[i].state != ST_FREE) {
					vs_deadlock_seen = 1;
					dump_and_die("DEADLOCK");
				}
		} else {
			d = choose(n);
			current = cand[d];
			pthread_cond_signal(&T[cand[d]].cv);
		}
	}
	pthread_mutex_unlock(&big);
	return ret;
}

int vs_create(pthread_t *t, const pthread_attr_t *a, void *(*fn)(void *), void *arg)
{
	int id;
	(void)a;
	pthread_mutex_lock(&big);
	if (nthreads >= MAXT) {
		pthread_mutex_unlock(&big);
		return 11;
	}
	id = nthreads++;
	T[id].state = ST_RUNNABLE;
	T[id].wait_obj = NULL;
	T[id].fn = fn;
	T[id].arg = arg;
	pthread_cond_init(&T[id].cv, NULL);
	if (pthread_create(&T[id].real, NULL, trampoline, (void *)(long)id) != 0) {
		nthreads--;
		pthread_mutex_unlock(&big);
		return 11;
	}
	*t = (pthread_t)(id + 1);
	sched_point();
	pthread_mutex_unlock(&big);
	return 0;
}

int vs_join(pthread_t t, void **ret)
{
	int id = (int)t - 1;
	pthread_mutex_lock(&big);
	sched_point();
	while (T[id].state != ST_DONE)
		block_self(ST_JOIN, (void *)(long)(id + 1));
	pthread_mutex_unlock(&big);
	pthread_join(T[id].real, ret);
	return 0;
}

int vs_sigmask(int how, const sigset_t *set, sigset_t *old)
{
	(void)how; (void)set;
	if (old)
		sigemptyset(old);
	return 0;
}
