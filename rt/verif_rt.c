/*
 * verif_rt.c - runtime linked into the instrumented builds of the tools
 * (variants asan/plain/serial).  Everything is inert unless an environment
 * variable arms it.  Project calls are redirected here at link time with
 * -Wl,--wrap=<sym>; libc-internal calls are not affected.
 *
 *  VERIF_EVLOG=<path>       write the event log at exit
 *  VERIF_COUNT=<path>       write per-class call counters at exit
 *  VERIF_IO=seed=N,pshort=P,peintr=P,maxeintr=K,pone=P   short counts / EINTR
 *  VERIF_FAULT=class=<c>,k=<n>,errno=<e>[,sticky=1][,eintr=1]  fail k-th call of class
 *  VERIF_KILL=<k>[:half]    SIGKILL before the k-th pwrite/ftruncate
 *  VERIF_READDIR=<mode>:<seed>   mode: 0 identity 1 reverse 2 sorted 3 shuffle
 *  VERIF_HASH_BITS=<n>      mask xxh32 to n bits
 *  VERIF_SPURIOUS=<pct>:<seed>   spurious wake-ups in pthread_cond_wait
 *  VERIF_DELAY=<mode>:<seed>     delays between critical sections of the pool
 *  VERIF_CLOCK_OFFSET=<sec> offset added to time()/gettimeofday()/clock_gettime(REALTIME)
 */
#define _GNU_SOURCE
#include <stdint.h>
#include <stdlib.h>
#include <stdio.h>
#include <string.h>
#include <errno.h>
#include <unistd.h>
#include <fcntl.h>
#include <signal.h>
#include <dirent.h>
#include <pthread.h>
#include <sched.h>
#include <time.h>
#include <stdarg.h>
#include <sys/mman.h>
#include <sys/time.h>
#include <sys/types.h>
#include <stdatomic.h>

#include "verif_rt.h"

enum { C_READ, C_WRITE, C_PREAD, C_PWRITE, C_TRUNC, C_OPEN, C_FSYNC, C_ALLOC, C_READDIR, C_NCLASS };
static const char *class_names[C_NCLASS] = {
	"read", "write", "pread", "pwrite", "trunc", "open", "fsync", "alloc", "readdir"
};

ssize_t __real_read(int, void *, size_t);
ssize_t __real_write(int, const void *, size_t);
ssize_t __real_pread(int, void *, size_t, off_t);
ssize_t __real_pwrite(int, const void *, size_t, off_t);
int __real_ftruncate(int, off_t);
int __real_fsync(int);
int __real_open(const char *, int, ...);
int __real_openat(int, const char *, int, ...);
struct dirent *__real_readdir(DIR *);
int __real_closedir(DIR *);
void *__real_malloc(size_t);
void *__real_calloc(size_t, size_t);
void *__real_realloc(void *, size_t);
char *__real_strdup(const char *);
char *__real_strndup(const char *, size_t);
uint32_t __real_xxh32(const void *, size_t);
int __real_pthread_cond_wait(pthread_cond_t *, pthread_mutex_t *);
time_t __real_time(time_t *);
int __real_gettimeofday(struct timeval *, void *);
int __real_clock_gettime(clockid_t, struct timespec *);

/* ---------------------------------------------------------------- state */

typedef struct { uint64_t seq, tid, kind, a, b, c; } ev_t;

static ev_t *ev_buf;
static size_t ev_max;
static atomic_size_t ev_n;
static atomic_size_t ev_dropped;
static const char *evlog_path, *count_path;
static atomic_ulong counters[C_NCLASS];
static atomic_int next_tid;
static __thread int my_tid = -1;
static __thread uint64_t my_rng;
static uint64_t delay_seed, io_seed, spur_seed;

static int io_on, io_pshort, io_peintr, io_maxeintr = 3, io_pone = 20;
static __thread int io_eintr_run;

static int fault_on, fault_class = -1, fault_errno = EIO, fault_sticky, fault_eintr_first;
static unsigned long fault_k;
static int fault_eintr_done;
static atomic_int fault_fired;

static unsigned long kill_k; static int kill_half;
static atomic_ulong kill_ctr;

static int rd_mode = -1; static uint64_t rd_seed;
static int hash_bits;
static int spur_pct;
static int delay_mode = -1;
static long clock_offset;
static atomic_ulong clock_calls;

static int get_tid(void)
{
	if (my_tid < 0)
		my_tid = atomic_fetch_add(&next_tid, 1);
	return my_tid;
}

static uint64_t splitmix(uint64_t *s)
{
	uint64_t z = (*s += 0x9E3779B97F4A7C15ULL);
	z = (z ^ (z >> 30)) * 0xBF58476D1CE4E5B9ULL;
	z = (z ^ (z >> 27)) * 0x94D049BB133111EBULL;
	return z ^ (z >> 31);
}

static uint64_t rnd(uint64_t seed)
{
	if (my_rng == 0)
		my_rng = seed * 0x9E3779B97F4A7C15ULL + (uint64_t)get_tid() * 0x1234567ULL + 1;
	return splitmix(&my_rng);
}

void verif_event_raw(int kind, uint64_t a, uint64_t b, uint64_t c)
{
	size_t i;
	if (ev_buf == NULL)
		return;
	i = atomic_fetch_add(&ev_n, 1);
	if (i >= ev_max) {
		atomic_fetch_add(&ev_dropped, 1);
		return;
	}
	ev_buf[i].seq = i;
	ev_buf[i].tid = get_tid();
	ev_buf[i].kind = kind;
	ev_buf[i].a = a;
	ev_buf[i].b = b;
	ev_buf[i].c = c;
}

void verif_event(int kind, uint64_t a, uint64_t b, uint64_t c)
{
	verif_event_raw(kind, a, b, c);

	/* modes 4 and 5 stall the submitting thread right after it handed an item to the pool (workers get ahead of it) */
	if (delay_mode >= 4 && kind == VEV_POOL_SUBMITTED) {
		uint64_t r = rnd(delay_seed);
		unsigned us = delay_mode == 4 ? 150 : (unsigned)((r >> 8) % 600);
		if (us) {
			struct timespec ts = { 0, (long)us * 1000 };
			nanosleep(&ts, NULL);
			verif_event_raw(VEV_DELAY, 999, us, 0);
		}
		return;
	}
	/* delays only at the two points that are outside the pool mutex */
	if (delay_mode >= 0 && (kind == VEV_POOL_TAKE || kind == VEV_POOL_DONE)) {
		uint64_t r = rnd(delay_seed);
		unsigned us = 0;
		switch (delay_mode) {
		case 0:
			if (r & 1) sched_yield();
			break;
		case 1:
			us = (r >> 8) % 300;
			break;
		case 2:	/* per worker slowness */
			us = ((b * 37 + delay_seed) % 5) * 80;
			break;
		case 3:	/* rare long stalls */
			us = ((r >> 8) % 16 == 0) ? 2000 : 0;
			break;
		default:
			break;
		}
		if (us) {
			struct timespec ts = { 0, (long)us * 1000 };
			nanosleep(&ts, NULL);
			verif_event_raw(VEV_DELAY, b, us, 0);
		}
	}
}

static long getnum(const char *s, const char *key, long def)
{
	size_t kl = strlen(key);
	while (s && *s) {
		if (!strncmp(s, key, kl) && s[kl] == '=')
			return strtol(s + kl + 1, NULL, 0);
		s = strchr(s, ',');
		if (s) ++s;
	}
	return def;
}

static void getstr(const char *s, const char *key, char *out, size_t outsz)
{
	size_t kl = strlen(key);
	out[0] = 0;
	while (s && *s) {
		if (!strncmp(s, key, kl) && s[kl] == '=') {
			size_t i = 0;
			s += kl + 1;
			while (*s && *s != ',' && i + 1 < outsz)
				out[i++] = *s++;
			out[i] = 0;
			return;
		}
		s = strchr(s, ',');
		if (s) ++s;
	}
}

__attribute__((constructor(101))) static void verif_init(void)
{
	const char *s;

	evlog_path = getenv("VERIF_EVLOG");
	count_path = getenv("VERIF_COUNT");
	if (evlog_path) {
		s = getenv("VERIF_EVMAX");
		ev_max = s ? strtoul(s, NULL, 0) : (1UL << 20);
		ev_buf = mmap(NULL, ev_max * sizeof(ev_t), PROT_READ | PROT_WRITE,
			      MAP_PRIVATE | MAP_ANONYMOUS | MAP_NORESERVE, -1, 0);
		if (ev_buf == MAP_FAILED)
			ev_buf = NULL;
	}
	if ((s = getenv("VERIF_IO")) != NULL) {
		io_on = 1;
		io_seed = getnum(s, "seed", 1);
		io_pshort = getnum(s, "pshort", 30);
		io_peintr = getnum(s, "peintr", 10);
		io_maxeintr = getnum(s, "maxeintr", 3);
		io_pone = getnum(s, "pone", 20);
	}
	if ((s = getenv("VERIF_FAULT")) != NULL) {
		char cls[32];
		int i;
		getstr(s, "class", cls, sizeof(cls));
		for (i = 0; i < C_NCLASS; ++i)
			if (!strcmp(cls, class_names[i]))
				fault_class = i;
		fault_k = getnum(s, "k", 0);
		fault_errno = getnum(s, "errno", EIO);
		fault_sticky = getnum(s, "sticky", 0);
		fault_eintr_first = getnum(s, "eintr", 0);
		fault_on = fault_class >= 0 && fault_k > 0;
	}
	if ((s = getenv("VERIF_KILL")) != NULL) {
		kill_k = strtoul(s, NULL, 0);
		kill_half = strstr(s, ":half") != NULL;
	}
	if ((s = getenv("VERIF_READDIR")) != NULL) {
		rd_mode = atoi(s);
		s = strchr(s, ':');
		rd_seed = s ? strtoull(s + 1, NULL, 0) : 1;
	}
	if ((s = getenv("VERIF_HASH_BITS")) != NULL)
		hash_bits = atoi(s);
	if ((s = getenv("VERIF_SPURIOUS")) != NULL) {
		spur_pct = atoi(s);
		s = strchr(s, ':');
		spur_seed = s ? strtoull(s + 1, NULL, 0) : 1;
	}
	if ((s = getenv("VERIF_DELAY")) != NULL) {
		delay_mode = atoi(s);
		s = strchr(s, ':');
		delay_seed = s ? strtoull(s + 1, NULL, 0) : 1;
	}
	if ((s = getenv("VERIF_CLOCK_OFFSET")) != NULL)
		clock_offset = strtol(s, NULL, 0);
}

static void wr_all(int fd, const char *buf, size_t n)
{
	while (n > 0) {
		ssize_t r = __real_write(fd, buf, n);
		if (r < 0) {
			if (errno == EINTR) continue;
			return;
		}
		buf += r; n -= r;
	}
}

__attribute__((destructor(101))) static void verif_fini(void)
{
	char line[256];
	int fd, i;

	if (count_path) {
		fd = __real_open(count_path, O_WRONLY | O_CREAT | O_TRUNC, 0644);
		if (fd >= 0) {
			for (i = 0; i < C_NCLASS; ++i) {
				int n = snprintf(line, sizeof(line), "%s %lu\n", class_names[i],
						 (unsigned long)atomic_load(&counters[i]));
				wr_all(fd, line, n);
			}
			i = snprintf(line, sizeof(line), "clock %lu\nfault_fired %d\n",
				     (unsigned long)atomic_load(&clock_calls), atomic_load(&fault_fired));
			wr_all(fd, line, i);
			close(fd);
		}
	}
	if (evlog_path && ev_buf) {
		size_t n = atomic_load(&ev_n), j, used = 0;
		static char big[1 << 16];
		if (n > ev_max) n = ev_max;
		fd = __real_open(evlog_path, O_WRONLY | O_CREAT | O_TRUNC, 0644);
		if (fd < 0)
			return;
		for (j = 0; j < n; ++j) {
			used += snprintf(big + used, sizeof(big) - used, "%lu %lu %lu %lu %lu %lu\n",
					 (unsigned long)ev_buf[j].seq, (unsigned long)ev_buf[j].tid,
					 (unsigned long)ev_buf[j].kind, (unsigned long)ev_buf[j].a,
					 (unsigned long)ev_buf[j].b, (unsigned long)ev_buf[j].c);
			if (used > sizeof(big) - 256) {
				wr_all(fd, big, used);
				used = 0;
			}
		}
		used += snprintf(big + used, sizeof(big) - used, "# dropped %lu\n",
				 (unsigned long)atomic_load(&ev_dropped));
		wr_all(fd, big, used);
		close(fd);
	}
}

/* ------------------------------------------------------------- faults */

/* returns 1 if the call must fail (errno set) */
static void note_caller(void *caller)
{
	const char *p = getenv("VERIF_FAULT_CALLER");
	if (p) {
		char line[64];
		int fd = __real_open(p, O_WRONLY | O_CREAT | O_TRUNC, 0644);
		if (fd >= 0) {
			int l = snprintf(line, sizeof(line), "%p\n", caller);
			wr_all(fd, line, l);
			close(fd);
		}
	}
}

#define check_fault(cls) check_fault_at((cls), __builtin_return_address(0))

static int check_fault_at(int cls, void *caller)
{
	unsigned long n = atomic_fetch_add(&counters[cls], 1) + 1;

	if (!fault_on || cls != fault_class)
		return 0;
	if (n == fault_k) {
		if (fault_eintr_first && !fault_eintr_done) {
			/* EINTR first; the retry (next call of the class) gets the real error */
			fault_eintr_done = 1;
			fault_k += 1;
			verif_event_raw(VEV_IO_EINTR, cls, 0, 0);
			errno = EINTR;
			return 1;
		}
		atomic_store(&fault_fired, 1);
		verif_event_raw(VEV_IO_FAULT, cls, n, fault_errno);
		note_caller(caller);
		errno = fault_errno;
		return 1;
	}
	if (fault_sticky && n > fault_k && atomic_load(&fault_fired)) {
		errno = fault_errno;
		return 1;
	}
	return 0;
}

static void check_kill(const void *buf, size_t count, off_t off, int fd, int is_write)
{
	unsigned long n;
	if (!kill_k)
		return;
	n = atomic_fetch_add(&kill_ctr, 1) + 1;
	if (n == kill_k) {
		if (kill_half && is_write && count > 1)
			__real_pwrite(fd, buf, count / 2, off);
		kill(getpid(), SIGKILL);
		for (;;) pause();
	}
}

/* returns possibly shortened count, or 0 with errno=EINTR signalled through *eintr */
static size_t perturb(int cls, size_t count, int *eintr)
{
	uint64_t r;
	*eintr = 0;
	if (!io_on || count == 0)
		return count;
	r = rnd(io_seed);
	if ((int)(r % 100) < io_peintr && io_eintr_run < io_maxeintr) {
		io_eintr_run++;
		*eintr = 1;
		verif_event_raw(VEV_IO_EINTR, cls, count, 0);
		return 0;
	}
	io_eintr_run = 0;
	r >>= 8;
	if (count > 1 && (int)(r % 100) < io_pshort) {
		size_t n;
		r >>= 8;
		if ((int)(r % 100) < io_pone)
			n = 1;
		else
			n = 1 + (r >> 8) % (count - 1);
		verif_event_raw(VEV_IO_SHORT, cls, count, n);
		return n;
	}
	return count;
}

ssize_t __wrap_read(int fd, void *buf, size_t count)
{
	int e; size_t n;
	if (check_fault(C_READ)) return -1;
	n = perturb(C_READ, count, &e);
	if (e) { errno = EINTR; return -1; }
	return __real_read(fd, buf, n);
}

ssize_t __wrap_write(int fd, const void *buf, size_t count)
{
	int e; size_t n;
	if (check_fault(C_WRITE)) return -1;
	n = perturb(C_WRITE, count, &e);
	if (e) { errno = EINTR; return -1; }
	return __real_write(fd, buf, n);
}

ssize_t __wrap_pread(int fd, void *buf, size_t count, off_t off)
{
	int e; size_t n;
	if (check_fault(C_PREAD)) return -1;
	n = perturb(C_PREAD, count, &e);
	if (e) { errno = EINTR; return -1; }
	return __real_pread(fd, buf, n, off);
}

ssize_t __wrap_pwrite(int fd, const void *buf, size_t count, off_t off)
{
	int e; size_t n;
	check_kill(buf, count, off, fd, 1);
	if (check_fault(C_PWRITE)) return -1;
	n = perturb(C_PWRITE, count, &e);
	if (e) { errno = EINTR; return -1; }
	return __real_pwrite(fd, buf, n, off);
}

int __wrap_ftruncate(int fd, off_t len)
{
	check_kill(NULL, 0, 0, fd, 0);
	if (check_fault(C_TRUNC)) return -1;
	return __real_ftruncate(fd, len);
}

int __wrap_fsync(int fd)
{
	if (check_fault(C_FSYNC)) return -1;
	return __real_fsync(fd);
}

int __wrap_open(const char *path, int flags, ...)
{
	mode_t mode = 0;
	if (flags & (O_CREAT | O_TMPFILE)) {
		va_list ap; va_start(ap, flags); mode = va_arg(ap, mode_t); va_end(ap);
	}
	if (check_fault(C_OPEN)) return -1;
	return __real_open(path, flags, mode);
}

int __wrap_openat(int dfd, const char *path, int flags, ...)
{
	mode_t mode = 0;
	if (flags & (O_CREAT | O_TMPFILE)) {
		va_list ap; va_start(ap, flags); mode = va_arg(ap, mode_t); va_end(ap);
	}
	if (check_fault(C_OPEN)) return -1;
	return __real_openat(dfd, path, flags, mode);
}

/* -------------------------------------------------------- allocations */

static int alloc_fault(void *caller)
{
	unsigned long n = atomic_fetch_add(&counters[C_ALLOC], 1) + 1;
	if (fault_on && fault_class == C_ALLOC && (n == fault_k || (fault_sticky && n > fault_k))) {
		atomic_store(&fault_fired, 1);
		verif_event_raw(VEV_ALLOC_FAULT, n, (uint64_t)(uintptr_t)caller, 0);
		if (n == fault_k)
			note_caller(caller);
		errno = ENOMEM;
		return 1;
	}
	return 0;
}

/* programmatic arming for harnesses: fail the k-th allocation from now on (once) */
void verif_arm_alloc_fault(unsigned long k)
{
	fault_class = C_ALLOC;
	fault_sticky = 0;
	atomic_store(&fault_fired, 0);
	fault_k = atomic_load(&counters[C_ALLOC]) + k;
	fault_on = 1;
}

int verif_disarm_fault(void)
{
	fault_on = 0;
	return atomic_load(&fault_fired);
}

void *__wrap_malloc(size_t n)
{
	if (alloc_fault(__builtin_return_address(0))) return NULL;
	return __real_malloc(n);
}

void *__wrap_calloc(size_t a, size_t b)
{
	if (alloc_fault(__builtin_return_address(0))) return NULL;
	return __real_calloc(a, b);
}

void *__wrap_realloc(void *p, size_t n)
{
	if (alloc_fault(__builtin_return_address(0))) return NULL;
	return __real_realloc(p, n);
}

char *__wrap_strdup(const char *s)
{
	if (alloc_fault(__builtin_return_address(0))) return NULL;
	return __real_strdup(s);
}

char *__wrap_strndup(const char *s, size_t n)
{
	if (alloc_fault(__builtin_return_address(0))) return NULL;
	return __real_strndup(s, n);
}

/* ------------------------------------------------------------ readdir */

typedef struct rdstate {
	DIR *dir;
	struct dirent *ents;
	size_t n, pos;
	struct rdstate *next;
} rdstate_t;

static rdstate_t *rd_list;
static pthread_mutex_t rd_mtx = PTHREAD_MUTEX_INITIALIZER;

static int cmp_dirent(const void *a, const void *b)
{
	return strcmp(((const struct dirent *)a)->d_name, ((const struct dirent *)b)->d_name);
}

static rdstate_t *rd_find(DIR *d, int remove)
{
	rdstate_t *it, *prev = NULL;
	for (it = rd_list; it; prev = it, it = it->next) {
		if (it->dir == d) {
			if (remove) {
				if (prev) prev->next = it->next; else rd_list = it->next;
			}
			return it;
		}
	}
	return NULL;
}

struct dirent *__wrap_readdir(DIR *d)
{
	rdstate_t *st;
	struct dirent *e, *ret = NULL;

	if (check_fault(C_READDIR)) return NULL;
	if (rd_mode < 0)
		return __real_readdir(d);

	pthread_mutex_lock(&rd_mtx);
	st = rd_find(d, 0);
	if (st == NULL) {
		size_t cap = 64, i;
		uint64_t h = 1469598103934665603ULL, s = rd_seed;
		st = __real_calloc(1, sizeof(*st));
		st->dir = d;
		st->ents = __real_malloc(cap * sizeof(struct dirent));
		errno = 0;
		while ((e = __real_readdir(d)) != NULL) {
			if (st->n == cap) {
				cap *= 2;
				st->ents = __real_realloc(st->ents, cap * sizeof(struct dirent));
			}
			memset(&st->ents[st->n], 0, sizeof(*e));
			memcpy(&st->ents[st->n++], e, __builtin_offsetof(struct dirent, d_name) + strlen(e->d_name) + 1);
		}
		switch (rd_mode) {
		case 1:
			for (i = 0; i < st->n / 2; ++i) {
				struct dirent t = st->ents[i];
				st->ents[i] = st->ents[st->n - 1 - i];
				st->ents[st->n - 1 - i] = t;
			}
			break;
		case 2:
			qsort(st->ents, st->n, sizeof(struct dirent), cmp_dirent);
			break;
		case 4: /* reverse sorted */
			qsort(st->ents, st->n, sizeof(struct dirent), cmp_dirent);
			for (i = 0; i < st->n / 2; ++i) {
				struct dirent t = st->ents[i];
				st->ents[i] = st->ents[st->n - 1 - i];
				st->ents[st->n - 1 - i] = t;
			}
			break;
		case 5: /* sorted, then rotated: two ascending runs, the second one starts at index <seed> */
			qsort(st->ents, st->n, sizeof(struct dirent), cmp_dirent);
			if (st->n > 1) {
				size_t k = (st->n - rd_seed % st->n) % st->n, a;
				struct dirent *tmp = __real_malloc(st->n * sizeof(struct dirent));
				for (a = 0; a < st->n; ++a)
					tmp[a] = st->ents[(a + k) % st->n];
				memcpy(st->ents, tmp, st->n * sizeof(struct dirent));
				free(tmp);
			}
			break;
		case 6: /* sorted, but "." and ".." moved to a seed dependent position */
			qsort(st->ents, st->n, sizeof(struct dirent), cmp_dirent);
			if (st->n > 3) {
				size_t k = 2 + rd_seed % (st->n - 2), a;
				struct dirent d0 = st->ents[0], d1 = st->ents[1];
				for (a = 2; a <= k; ++a)
					st->ents[a - 2] = st->ents[a];
				st->ents[k - 1] = d0;
				st->ents[k] = d1;
			}
			break;
		case 3:
			/* shuffle relative to the *sorted* order so that the
			   permutation depends on the seed only */
			qsort(st->ents, st->n, sizeof(struct dirent), cmp_dirent);
			for (i = 0; i < st->n; ++i)
				s ^= (uint64_t)(unsigned char)st->ents[i].d_name[0] << (i % 56);
			for (i = st->n; i > 1; --i) {
				size_t j = splitmix(&s) % i;
				struct dirent t = st->ents[i - 1];
				st->ents[i - 1] = st->ents[j];
				st->ents[j] = t;
			}
			break;
		default:
			break;
		}
		for (i = 0; i < st->n; ++i) {
			const char *p = st->ents[i].d_name;
			while (*p) { h ^= (unsigned char)*p++; h *= 1099511628211ULL; }
			h ^= 0xff; h *= 1099511628211ULL;
		}
		verif_event_raw(VEV_READDIR, rd_mode, st->n, h);
		st->next = rd_list;
		rd_list = st;
	}
	if (st->pos < st->n) {
		ret = &st->ents[st->pos++];
	} else {
		ret = NULL;
		errno = 0;
	}
	pthread_mutex_unlock(&rd_mtx);
	return ret;
}

int __wrap_closedir(DIR *d)
{
	rdstate_t *st;
	pthread_mutex_lock(&rd_mtx);
	st = rd_find(d, 1);
	pthread_mutex_unlock(&rd_mtx);
	if (st) {
		free(st->ents);
		free(st);
	}
	return __real_closedir(d);
}

/* -------------------------------------------------------------- xxh32 */

uint32_t __wrap_xxh32(const void *in, size_t len)
{
	uint32_t h = __real_xxh32(in, len);
	if (hash_bits > 0 && hash_bits < 32) {
		uint32_t m = h & ((1U << hash_bits) - 1);
		verif_event_raw(VEV_HASH, h, m, len);
		return m;
	}
	return h;
}

/* ------------------------------------------------------- cond_wait */

int __wrap_pthread_cond_wait(pthread_cond_t *c, pthread_mutex_t *m)
{
	if (spur_pct > 0) {
		uint64_t r = rnd(spur_seed);
		if ((int)(r % 100) < spur_pct) {
			/* a spurious wake-up: legal per POSIX */
			verif_event_raw(VEV_SPURIOUS, 0, 0, 0);
			pthread_mutex_unlock(m);
			sched_yield();
			pthread_mutex_lock(m);
			return 0;
		}
	}
	return __real_pthread_cond_wait(c, m);
}

/* ------------------------------------------------------------ clocks */

time_t __wrap_time(time_t *t)
{
	time_t r = __real_time(NULL) + clock_offset;
	atomic_fetch_add(&clock_calls, 1);
	verif_event_raw(VEV_CLOCK, 0, 0, 0);
	if (t) *t = r;
	return r;
}

int __wrap_gettimeofday(struct timeval *tv, void *tz)
{
	int r = __real_gettimeofday(tv, tz);
	atomic_fetch_add(&clock_calls, 1);
	verif_event_raw(VEV_CLOCK, 1, 0, 0);
	if (r == 0 && tv) tv->tv_sec += clock_offset;
	return r;
}

int __wrap_clock_gettime(clockid_t id, struct timespec *ts)
{
	int r = __real_clock_gettime(id, ts);
	atomic_fetch_add(&clock_calls, 1);
	verif_event_raw(VEV_CLOCK, 2, id, 0);
	if (r == 0 && ts && id == CLOCK_REALTIME) ts->tv_sec += clock_offset;
	return r;
}
