/* Event kinds shared between the hooks in /repo (guarded by SQFSNG_VERIF),
 * the linked-in runtime rt/verif_rt.c and the Python log readers. */
#ifndef VERIF_RT_H
#define VERIF_RT_H
#include <stdint.h>

enum {
	/* thread pool (lib/util/src/threadpool.c) */
	VEV_POOL_SUBMIT = 1,	/* a=ticket */
	VEV_POOL_TAKE = 2,	/* a=ticket b=worker index (outside lock) */
	VEV_POOL_DONE = 3,	/* a=ticket b=worker index c=status (outside lock) */
	VEV_POOL_STORE = 4,	/* a=ticket (inside lock) */
	VEV_POOL_RELEASE = 5,	/* a=ticket (handed to consumer side) */
	VEV_POOL_SUBMITTED = 6,	/* submitting thread, after the pool mutex was released */
	/* block processor backend */
	VEV_BLK_IOSEQ = 10,	/* a=seq b=flags c=index */
	VEV_BLK_WRITE = 11,	/* a=seq b=flags c=size */
	VEV_FRAG_SHARE = 12,	/* a=frag index b=offset c=size */
	VEV_FRAG_APPEND = 13,	/* a=frag index b=offset c=size */
	VEV_FRAG_OVERFLOW = 14,	/* a=frag index b=seq */
	/* fragment byte compare (block_processor.c chunk_info_equals) */
	VEV_FRAG_CMP = 20,	/* a=source(0 inflight,1 current,2 reread) b=outcome(0 eq,1 diff,2 error) */
	/* block dedup (block_writer.c) */
	VEV_BLK_CMP = 21,	/* a=candidate index b=outcome(0 eq,1 diff,2 err) c=count */
	VEV_BLK_SHARE = 22,	/* a=start index b=count */
	/* reader caches */
	VEV_META_CACHE = 30,	/* a=0 hit 1 miss-loaded 2 load failed, b=block offset */
	VEV_DATA_CACHE = 31,	/* a=0 hit 1 miss-loaded 2 load failed, b=location c=(0 data,1 frag) */

	/* runtime generated */
	VEV_IO_SHORT = 100,	/* a=class b=requested c=returned */
	VEV_IO_EINTR = 101,	/* a=class */
	VEV_IO_FAULT = 102,	/* a=class b=k c=errno */
	VEV_KILL = 103,		/* a=k */
	VEV_READDIR = 104,	/* a=mode b=entries c=order hash */
	VEV_ALLOC_FAULT = 105,	/* a=k b=caller */
	VEV_SPURIOUS = 106,
	VEV_CLOCK = 107,	/* a=which */
	VEV_HASH = 108,		/* a=real b=masked */
	VEV_DELAY = 109,	/* a=worker b=usec */
};

void verif_event(int kind, uint64_t a, uint64_t b, uint64_t c);
void verif_arm_alloc_fault(unsigned long k);
int verif_disarm_fault(void);

#endif
